#!/bin/bash
# run.sh <Cxx> quick|thorough        run one property's check against /repo's working tree
# run.sh <Cxx> replay <file>         re-execute a replay file in a fresh process
# Copies /repo to a scratch directory, applies the simulation passes (cmd/instrument),
# builds simcheck against the copy and runs it. Exit 0 held / 1 VIOLATION / 2 harness trouble.
set -u
export GOFLAGS=-mod=mod GOPROXY=off GOSUMDB=off GOTOOLCHAIN=local CGO_ENABLED=0
VERIF="$(cd "$(dirname "$0")" && pwd)"
REPO="${VERIF_REPO:-/repo}"
export VERIF_DIR="$VERIF"
prop="${1:-}"; mode="${2:-}"
[ -n "$prop" ] && [ -n "$mode" ] || { echo "usage: run.sh <Cxx> quick|thorough|replay <file>" >&2; exit 2; }

SCR="$(mktemp -d "${TMPDIR:-/tmp}/snessim.XXXXXX")" || exit 2
trap 'rm -rf "$SCR"' EXIT
# evidence is only written for runs against /repo itself
[ "$REPO" = "/repo" ] || export SIM_EVIDENCE_DIR="$SCR/evidence"

rsync -a --exclude .git "$REPO"/ "$SCR/snes"/ || { echo "run.sh: copy failed" >&2; exit 2; }
[ -x "$VERIF/bin/instrument" ] || (cd "$VERIF" && go build -o bin/instrument ./cmd/instrument) || { echo "run.sh: building instrument failed" >&2; exit 2; }
"$VERIF/bin/instrument" "$SCR/snes" >"$SCR/instrument.log" 2>&1 || { cat "$SCR/instrument.log" >&2; echo "run.sh: instrumentation failed" >&2; exit 2; }
# goroutines the library starts itself are not under the simulator's scheduler (DESIGN 9.7)
export SIM_LIB_GOSTMTS="$(sed -n 's/^instrument: gostmts=//p' "$SCR/instrument.log")"

cat >"$SCR/go.mod" <<EOM
module verif

go 1.21

require github.com/alttpo/snes v0.0.0

replace github.com/alttpo/snes => $SCR/snes
EOM
: >"$SCR/go.sum"
(cd "$VERIF" && go build -trimpath -tags instr -modfile="$SCR/go.mod" -o "$SCR/simcheck" ./cmd/simcheck) >"$SCR/build.log" 2>&1 \
  || { cat "$SCR/build.log" >&2; echo "run.sh: build failed (the tree under $REPO does not compile with the simulation passes applied)" >&2; exit 2; }

# DESIGN §3.2 cross-check: the same scenarios on the UNinstrumented tree (seams only, Go's own
# map order). Verdicts must agree run by run; for the worlds whose observations do not depend
# on map order the observation digests must be identical too. A disagreement means the
# simulation passes changed the library's behaviour: a harness problem, exit 2.
crosscheck() {
  local n=300
  case "$prop" in C18) return 0 ;; C12|C14) n=120 ;; esac
  mkdir -p "$SCR/plain"; rsync -a --exclude .git --exclude '*_test.go' "$REPO"/ "$SCR/plain/snes"/ || return 2
  sed "s|$SCR/snes|$SCR/plain/snes|" "$SCR/go.mod" >"$SCR/plain/go.mod"; : >"$SCR/plain/go.sum"
  (cd "$VERIF" && go build -trimpath -modfile="$SCR/plain/go.mod" -o "$SCR/simcheck.plain" ./cmd/simcheck) >"$SCR/build.plain.log" 2>&1 || { cat "$SCR/build.plain.log" >&2; return 2; }
  SIM_RELAX="${SIM_RELAX:-D2}" "$SCR/simcheck" eventlog "$prop" quick $n 2>/dev/null | grep '^RUN' >"$SCR/cc.instr"
  SIM_RELAX="${SIM_RELAX:-D2}" "$SCR/simcheck.plain" eventlog "$prop" quick $n 2>/dev/null | grep '^RUN' >"$SCR/cc.plain"
  # Only runs that pass in both builds are compared (a violation is the main run's business, and
  # with Go's own map order an order-dependent violation may legitimately show in one build only).
  awk '$NF=="v=true"{exit} {print}' "$SCR/cc.instr" >"$SCR/cc.i0"; awk '$NF=="v=true"{exit} {print}' "$SCR/cc.plain" >"$SCR/cc.p0"
  local k; k=$(wc -l <"$SCR/cc.i0"); local k2; k2=$(wc -l <"$SCR/cc.p0"); [ "$k2" -lt "$k" ] && k=$k2
  case "$prop" in C06|C15|C16|C19) head -n "$k" "$SCR/cc.i0" | awk '{print $2,$3}' >"$SCR/cc.i"; head -n "$k" "$SCR/cc.p0" | awk '{print $2,$3}' >"$SCR/cc.p" ;;
    *) head -n "$k" "$SCR/cc.i0" | awk '{print $2,$3,$4}' >"$SCR/cc.i"; head -n "$k" "$SCR/cc.p0" | awk '{print $2,$3,$4}' >"$SCR/cc.p" ;; esac
  if ! cmp -s "$SCR/cc.i" "$SCR/cc.p"; then
    echo "run.sh: instrumented and plain builds disagree on $prop:" >&2; diff "$SCR/cc.i" "$SCR/cc.p" | head -6 >&2; return 2
  fi
  export SIM_CROSSCHECK="$(wc -l <"$SCR/cc.i" | tr -d ' ') passing runs executed on both the instrumented copy and the plain tree$(case "$prop" in C06|C15|C16|C19) echo " (observations depend on map order: not compared)" ;; *) echo ": observation digests identical" ;; esac)"
  return 0
}

case "$mode" in
  replay) "$SCR/simcheck" replay "$prop" "${3:?replay file}"; exit $? ;;
  quick|thorough)
    if [ "${SIM_NO_CROSSCHECK:-0}" != 1 ]; then crosscheck || { echo "run.sh: cross-check failed" >&2; exit 2; }; fi
    "$SCR/simcheck" "$prop" "$mode"; exit $? ;;
  eventlog) "$SCR/simcheck" eventlog "$prop" "${3:-quick}" "${4:-200}"; exit $? ;;
  determinism)
    # DESIGN §6.1: the same runs in many separate processes at GOMAXPROCS 1/4/16, two
    # VERIF_SEED values; per-run event lines (scenario hash, observation digest, map-order
    # permutations drawn, yields, switches, schedule hash) must be byte-identical.
    nruns="${3:-200}"; nprocs="${4:-30}"; rc=0
    for seed in "${VERIF_SEED:-1}" 7; do
      i=0
      while [ $i -lt "$nprocs" ]; do
        for gmp in 1 4 16; do
          i=$((i+1)); [ $i -le "$nprocs" ] || break
          ( SIM_RELAX="${SIM_RELAX:-D2}" VERIF_SEED=$seed GOMAXPROCS=$gmp "$SCR/simcheck" eventlog "$prop" quick "$nruns" >"$SCR/ev.$seed.$i" 2>&1 ) &
        done
        wait
      done
      for f in "$SCR"/ev.$seed.*; do
        if ! cmp -s "$SCR/ev.$seed.1" "$f"; then
          echo "DETERMINISM FAILURE property=$prop seed=$seed: $(basename "$f") differs"; diff "$SCR/ev.$seed.1" "$f" | head -6; rc=2
        fi
      done
      nlines="$(grep -c '^RUN' "$SCR/ev.$seed.1")"
      [ "$nlines" -ge 1 ] || { echo "DETERMINISM SELF-TEST BROKEN property=$prop seed=$seed: no event lines"; rc=2; }
      echo "determinism $prop seed=$seed: $nprocs processes x $nlines runs, $( [ $rc = 0 ] && echo identical || echo DIFFERENT)"
    done
    exit $rc ;;
  *) echo "unknown mode $mode" >&2; exit 2 ;;
esac
