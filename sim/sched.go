package sim

import (
	"fmt"
	"strings"
	"sync/atomic"
	"time"
)

// Sched is the baton-passing scheduler of multi-party worlds (DESIGN §3.3). Every party is
// a real goroutine, exactly one of them is runnable at any time, and the only place where
// the baton can change hands is a yield point, under a decision taken here — from the
// explicit switch list of the scenario, or from the sched stream (and then recorded).
type Sched struct {
	envs []*Env
	wake []chan struct{}
	done []bool
	cur  int

	yields uint64
	max    uint64

	rng         *Rand
	ppm         int // switch probability per million yields
	boost       int // per-million probability used at fault yields
	maxSwitches int
	running     bool

	useExplicit bool
	explicit    []Switch
	ei          int

	Recorded []Switch
	finished chan struct{}
	aborted  bool
	Aborted  bool

	stats *Stats
	// OnSwitch is evaluated at every context switch, before the baton is handed over:
	// the instants at which another party could observe shared state.
	OnSwitch func(from, to int, site string) *Violation
	Viol     *Violation

	curLibSite int32
	schedHash  uint64

	tick       uint64 // progress counter (atomic): yields and party completions
	Deadlocked bool
	lastSite   []string
}

func NewSched(sc *Scenario, envs []*Env, st *Stats, maxYields uint64) *Sched {
	s := &Sched{
		envs: envs, stats: st, max: maxYields,
		rng:         ForkSeed(sc.Seed, "sched"),
		ppm:         sc.SwitchPPM,
		finished:    make(chan struct{}),
		maxSwitches: 30000,
	}
	s.boost = 500000
	if s.ppm == 0 {
		s.boost = 0
	}
	if sc.Sched != nil {
		s.useExplicit = true
		s.explicit = sc.Sched
	}
	for i, e := range envs {
		e.sched = s
		e.Task = i
		s.wake = append(s.wake, make(chan struct{}, 1))
		s.done = append(s.done, false)
		s.lastSite = append(s.lastSite, "start")
	}
	return s
}

// Run executes the parties to completion under the schedule and returns the switch list
// that was actually taken.
func (s *Sched) Run(tasks []func(e *Env)) {
	activeSched = s
	activeEnv = nil
	s.running = true
	setHook(libHook)
	setPerm(libPerm)
	setClock(libClock)
	setSleep(libSleep)
	setExit(libExit)
	defer func() { s.running = false; Deactivate() }()

	for i := range tasks {
		go func(i int) {
			<-s.wake[i]
			defer func() {
				if r := recover(); r != nil {
					if _, ok := r.(WatchdogAbort); ok {
						s.aborted = true
					} else {
						// a harness bug inside a task: surface it, but keep the baton protocol alive
						s.aborted = true
						if s.Viol == nil {
							s.Viol = &Violation{Oracle: "HARNESS_PANIC", Msg: PanicString(r), Step: -1}
						}
					}
				}
				s.finish(i)
			}()
			if s.aborted {
				return
			}
			tasks[i](s.envs[i])
		}(i)
	}
	s.cur = 0
	s.wake[0] <- struct{}{}
	// Wait for the parties. The running party can only stop making progress without yielding
	// if it blocks on something real — typically a lock the library holds across a call-out
	// into another party's seam (which is parked there). That is a finding, not a hang.
	ticker := time.NewTicker(2 * time.Second)
	defer ticker.Stop()
	last, idle := atomic.LoadUint64(&s.tick), 0
	lastChild, childOnly := libraryGoroutineTicks(), 0
wait:
	for {
		select {
		case <-s.finished:
			break wait
		case <-ticker.C:
			cur := atomic.LoadUint64(&s.tick)
			if cur != last {
				last, idle, childOnly = cur, 0, 0
				continue
			}
			if ct := libraryGoroutineTicks(); ct != lastChild && childOnly < 100 {
				// the running party waits for goroutines the library started, and they move
				lastChild, idle = ct, 0
				childOnly++
				continue
			}
			idle++
			if idle >= 10 {
				s.Deadlocked = true
				var parked []string
				for i := range s.done {
					if i != s.cur && !s.done[i] {
						parked = append(parked, fmt.Sprintf("party %d parked at %s", i, s.lastSite[i]))
					}
				}
				s.Viol = &Violation{Oracle: "party_blocked_across_callout", Step: -1, NoShrink: true,
					Msg: fmt.Sprintf("party %d has made no progress and reached no yield point for 20 s while %s: it is blocked on something another party holds across a call-out to caller code (lock held while calling a Logger/Writer/Memory/callback)", s.cur, strings.Join(parked, ", "))}
				break wait
			}
		}
	}
	s.Aborted = s.aborted
	if s.stats != nil {
		s.stats.Yields += s.yields
		s.stats.Schedule(s.schedHash)
	}
}

func (s *Sched) finish(i int) {
	atomic.AddUint64(&s.tick, 1)
	s.done[i] = true
	n := len(s.done)
	for k := 1; k <= n; k++ {
		j := (i + k) % n
		if !s.done[j] {
			s.cur = j
			s.wake[j] <- struct{}{}
			return
		}
	}
	close(s.finished)
}

func (s *Sched) runnableOther() []int {
	var out []int
	for j := range s.done {
		if j != s.cur && !s.done[j] {
			out = append(out, j)
		}
	}
	return out
}

func (s *Sched) yield(e *Env, site string, isBoost bool) {
	atomic.AddUint64(&s.tick, 1)
	if s.yields&255 == 0 {
		atomic.AddUint64(&globalTick, 1)
	}
	s.yields++
	if s.aborted {
		panic(WatchdogAbort{s.yields})
	}
	if s.max > 0 && s.yields > s.max {
		s.aborted = true
		panic(WatchdogAbort{s.yields})
	}
	to := -1
	if s.useExplicit {
		for s.ei < len(s.explicit) && s.explicit[s.ei].At < s.yields {
			s.ei++
		}
		if s.ei < len(s.explicit) && s.explicit[s.ei].At == s.yields {
			to = s.explicit[s.ei].To
			s.ei++
		}
	} else if s.ppm > 0 && len(s.Recorded) < s.maxSwitches {
		p := s.ppm
		if isBoost && s.boost > p {
			p = s.boost
		}
		if s.rng.Intn(1000000) < p {
			if others := s.runnableOther(); len(others) > 0 {
				to = others[s.rng.Intn(len(others))]
			}
		}
	}
	if to < 0 || to >= len(s.done) || to == s.cur || s.done[to] {
		return
	}
	from := s.cur
	if site == "" {
		site = siteName(s.curLibSite)
	}
	cls := site
	if i := strings.IndexByte(cls, ':'); i > 0 {
		cls = cls[:i]
	}
	s.Recorded = append(s.Recorded, Switch{At: s.yields, To: to})
	s.schedHash = HashU64(HashBytes(s.schedHash, []byte(cls)), uint64(to))
	if s.stats != nil {
		s.stats.Switches++
		s.stats.SwitchBySite[cls]++
		s.stats.runNontrivial = true
	}
	if s.OnSwitch != nil && s.Viol == nil {
		if v := s.OnSwitch(from, to, site); v != nil {
			s.Viol = v
		}
	}
	s.lastSite[from] = site
	s.cur = to
	s.wake[to] <- struct{}{}
	<-s.wake[from]
	if s.aborted {
		panic(WatchdogAbort{s.yields})
	}
}
