package sim

import (
	"fmt"
	"sync/atomic"
	"time"
)

// WatchdogAbort is panicked from inside a yield point when a run has executed more yields
// than its bound: the deterministic replacement for a wall-clock hang detector.
type WatchdogAbort struct{ Yields uint64 }

func (w WatchdogAbort) Error() string { return fmt.Sprintf("watchdog: %d yields", w.Yields) }

// Env is the context of one party (task) of a run: its statistics sink, its task-local
// choice stream, its observation digest and its connection to the scheduler.
type Env struct {
	Stats *Stats
	// Relax holds the ids of known findings whose witness still fails on this tree; a world
	// applies the corresponding narrow model relaxation (DESIGN §3.6).
	Relax map[string]bool
	// Local is the task-local stream: sink fault plans, map-order permutations, chunk sizes.
	Local *Rand

	Task  int
	sched *Sched
	// Shared is an object several parties of one world legitimately share read-only (C18:
	// the common parent emitter of a clone group); nil when the party runs alone.
	Shared interface{}

	yields    uint64
	maxYields uint64

	// observation digest: everything the party can observe of the library is folded in here;
	// C18 compares the per-op digests of a solo and an interleaved execution.
	obs     uint64
	OpObs   []uint64
	permLog uint64

	// simulated clock (P-time): what the library reads instead of the wall clock. It advances
	// with the yield points that have passed (under a scheduler: those of all parties, so time
	// passes while a party is parked), at a per-run rate drawn from the party's seed.
	seed       uint64
	clockTick  int64 // ns per yield point; -1: not drawn yet
	clockExtra int64 // ns added by simulated sleeps
	ClockReads uint64
}

func NewEnv(st *Stats, relax map[string]bool, seed uint64) *Env {
	return &Env{Stats: st, Relax: relax, Local: ForkSeed(seed, "local"), seed: seed, clockTick: -1}
}

// SetWatchdog bounds the number of yields this party may execute (0: unbounded).
func (e *Env) SetWatchdog(max uint64) {
	if e.sched != nil {
		return // the scheduler's own bound applies to a multi-party run
	}
	e.maxYields = max
	e.yields = 0
}

// InSched reports whether this party runs under a multi-party scheduler.
func (e *Env) InSched() bool { return e.sched != nil }
func (e *Env) Yields() uint64 {
	if e.sched != nil {
		return e.sched.yields
	}
	return e.yields
}

// Yield is a scheduling point at a seam (site classes of DESIGN §3.3).
func (e *Env) Yield(site string) {
	if onLibraryGoroutine() {
		return
	}
	if e.sched != nil {
		e.sched.yield(e, site, false)
		return
	}
	e.count()
}

// FaultYield is a yield right after a fault event: switches are biased to land here.
func (e *Env) FaultYield(site string) {
	if onLibraryGoroutine() {
		return
	}
	if e.sched != nil {
		e.sched.yield(e, site, true)
		return
	}
	e.count()
}

// globalTick counts yield points process-wide (single-party runs and scheduled ones alike):
// the no-progress monitor of SafeExec watches it.
var globalTick uint64

func (e *Env) count() {
	if e.yields&255 == 0 {
		atomic.AddUint64(&globalTick, 1) // coarse: the monitor only needs to see that there is progress
	}
	e.yields++
	if e.maxYields > 0 && e.yields > e.maxYields {
		panic(WatchdogAbort{e.yields})
	}
}

func (e *Env) ObsU64(v uint64)   { e.obs = HashU64(e.obs, v) }
func (e *Env) ObsInt(v int)      { e.obs = HashU64(e.obs, uint64(int64(v))) }
func (e *Env) ObsBytes(b []byte) { e.obs = HashU64(HashBytes(e.obs, b), uint64(len(b))) }
func (e *Env) ObsStr(s string)   { e.obs = HashU64(HashBytes(e.obs, []byte(s)), uint64(len(s))) }
func (e *Env) ObsBool(b bool) {
	if b {
		e.ObsU64(1)
	} else {
		e.ObsU64(0)
	}
}
func (e *Env) ObsErr(err error) {
	if err == nil {
		e.ObsU64(0)
	} else {
		e.ObsStr(ErrText(err))
	}
}

// ErrText is err.Error(), or a marker if the Error method itself panics (a typed nil pointer
// returned as a non-nil error: the library's slip, not a reason for the harness to fall over).
func ErrText(err error) (s string) {
	defer func() {
		if r := recover(); r != nil {
			s = "<Error() panicked: " + PanicString(r) + ">"
		}
	}()
	return err.Error()
}

// OpDone closes the observations of one op of the party's script.
func (e *Env) OpDone()        { e.OpObs = append(e.OpObs, e.obs) }
func (e *Env) Digest() uint64 { return e.obs }

// ---- process-wide hook plumbing (one world runs at a time per worker process) ----

var activeEnv *Env
var activeSched *Sched

func libHook(site int32) {
	if s := activeSched; s != nil {
		s.curLibSite = site
		s.yield(s.envs[s.cur], "", false)
		return
	}
	if e := activeEnv; e != nil {
		e.count()
	}
}

var simEpoch = time.Date(2026, 1, 1, 0, 0, 0, 0, time.UTC)

func currentEnv() *Env {
	if s := activeSched; s != nil {
		return s.envs[s.cur]
	}
	return activeEnv
}

// libClock is the library's time.Now while a simulation runs.
func libClock() time.Time {
	e := currentEnv()
	if e == nil {
		return time.Now()
	}
	if e.clockTick < 0 {
		e.clockTick = []int64{0, 100, 10_000, 1_000_000, 40_000_000}[ForkSeed(e.seed, "clock").Intn(5)]
	}
	e.ClockReads++
	if e.Stats != nil {
		e.Stats.Probe("library_read_the_clock")
	}
	return simEpoch.Add(time.Duration(int64(e.Yields())*e.clockTick + e.clockExtra))
}

func libSleep(d time.Duration) {
	if e := currentEnv(); e != nil {
		e.clockExtra += int64(d)
	}
}

// ProcessExit is what os.Exit / log.Fatal* in the library turn into while a simulation runs.
type ProcessExit struct {
	Code int
	Msg  string
}

func (p ProcessExit) Error() string {
	return fmt.Sprintf("the library ended the process (exit status %d): %s", p.Code, p.Msg)
}

var processExits int32

// ProcessExits: how often the library has tried to end the process so far.
func ProcessExits() int { return int(atomic.LoadInt32(&processExits)) }

func libExit(code int, msg string) {
	atomic.AddInt32(&processExits, 1)
	panic(ProcessExit{code, msg})
}

func libPerm(n int) []int {
	var e *Env
	if s := activeSched; s != nil {
		e = s.envs[s.cur]
	} else {
		e = activeEnv
	}
	if e == nil {
		return nil
	}
	p := e.Local.Perm(n)
	for _, v := range p {
		e.permLog = HashU64(e.permLog, uint64(v))
	}
	return p
}

// Activate installs e as the party whose library yields are counted (single-party worlds).
func Activate(e *Env) {
	if e.sched != nil {
		return // party of a multi-party run: the scheduler owns the hooks
	}
	activeEnv = e
	activeSched = nil
	setHook(libHook)
	setPerm(libPerm)
	setClock(libClock)
	setSleep(libSleep)
	setExit(libExit)
}

func Deactivate() {
	if activeSched != nil && activeSched.running {
		return
	}
	activeEnv = nil
	activeSched = nil
	setHook(nil)
	setPerm(nil)
	setClock(nil)
	setSleep(nil)
	setExit(nil)
}

// PermLog is a digest of the map-order permutations drawn by this party.
func (e *Env) PermLog() uint64 { return e.permLog }

// MapRangesRun reports how many instrumented map ranges have executed in this process.
func MapRangesRun() uint64 { return mapRangesRun() }

// RecoverLib runs f and converts a panic raised by library code into a value. Watchdog
// aborts are re-panicked: they belong to the simulator, not to the library.
func RecoverLib(f func()) (panicked bool, val interface{}) {
	defer func() {
		if r := recover(); r != nil {
			if w, ok := r.(WatchdogAbort); ok {
				panic(w)
			}
			panicked = true
			val = r
		}
	}()
	f()
	return
}

func PanicString(v interface{}) string {
	switch x := v.(type) {
	case nil:
		return ""
	case error:
		return x.Error()
	case string:
		return x
	}
	return fmt.Sprint(v)
}

// RecoverWD is RecoverLib that also catches the simulator's own watchdog, for the calls
// whose non-termination is itself the property under test (C12: RunUntil always returns).
func RecoverWD(f func()) (panicked bool, val interface{}, watchdog bool) {
	defer func() {
		if r := recover(); r != nil {
			if _, ok := r.(WatchdogAbort); ok {
				watchdog = true
				return
			}
			panicked = true
			val = r
		}
	}()
	f()
	return
}
