//go:build instr

package sim

import (
	"time"

	"github.com/alttpo/snes/zzsimrt"
)

// Instrumented reports whether the library under test is the P-yield/P-maporder/P-globals copy.
const Instrumented = true

func setHook(h func(site int32))  { zzsimrt.Hook = h }
func setPerm(p func(n int) []int) { zzsimrt.Perm = p }
func siteName(i int32) string {
	if int(i) < len(zzsimrt.Sites) {
		return zzsimrt.Sites[i]
	}
	return "?"
}
func nSites() int { return len(zzsimrt.Sites) }

// onLibraryGoroutine: is the caller a goroutine the library started itself (P-go)? Such a
// goroutine may reach a seam (call the caller's Logger, Writer, Memory): it is no party of
// the simulation, so a yield there does not apply to it.
func onLibraryGoroutine() bool { return zzsimrt.LiveChildren() != 0 && zzsimrt.InChild() }
func mapRangesRun() uint64     { return zzsimrt.MapRanges }

type globalVar struct {
	Name string
	Ptr  interface{}
}

func globals() []globalVar {
	out := make([]globalVar, 0, len(zzsimrt.Globals))
	for _, g := range zzsimrt.Globals {
		out = append(out, globalVar{g.Name, g.Ptr})
	}
	return out
}

// LibraryGoroutinePanics: how many goroutines started by the library have died of a panic so
// far (in production each of them would have terminated the process).
func LibraryGoroutinePanics() int { return int(zzsimrt.ChildPanics.Load()) }

// libraryGoroutineTicks: yield sites passed so far by goroutines the library started.
func libraryGoroutineTicks() uint64 { return zzsimrt.ChildTicks.Load() }

func setClock(c func() time.Time)          { zzsimrt.Clock = c }
func setSleep(h func(d time.Duration))     { zzsimrt.SleepHook = h }
func setExit(h func(code int, msg string)) { zzsimrt.ExitHook = h }
