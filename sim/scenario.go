package sim

import (
	"encoding/hex"
	"encoding/json"
	"fmt"
	"os"
	"sort"
	"strings"
)

// HexBytes marshals as a hex string so replay files stay readable.
type HexBytes []byte

func (h HexBytes) MarshalJSON() ([]byte, error) { return json.Marshal(hex.EncodeToString(h)) }
func (h *HexBytes) UnmarshalJSON(b []byte) error {
	var s string
	if err := json.Unmarshal(b, &s); err != nil {
		return err
	}
	d, err := hex.DecodeString(s)
	*h = d
	return err
}

// Op is one step of a scenario: an operation on the system under test, an injected fault,
// or an observation. Its meaning is defined by the world that executes it.
type Op struct {
	K string   `json:"k"`
	N []int64  `json:"n,omitempty"`
	S string   `json:"s,omitempty"`
	B HexBytes `json:"b,omitempty"`
}

func (o Op) Arg(i int) int64 {
	if i < len(o.N) {
		return o.N[i]
	}
	return 0
}

func (o Op) String() string {
	var sb strings.Builder
	sb.WriteString(o.K)
	if o.S != "" {
		fmt.Fprintf(&sb, " %q", o.S)
	}
	for _, n := range o.N {
		fmt.Fprintf(&sb, " %#x", n)
	}
	if len(o.B) > 0 {
		if len(o.B) <= 8 {
			fmt.Fprintf(&sb, " [%x]", []byte(o.B))
		} else {
			fmt.Fprintf(&sb, " [%d bytes]", len(o.B))
		}
	}
	return sb.String()
}

// Task is one party of a multi-party world (C18): a role, its configuration, its script.
type Task struct {
	Role string           `json:"role"`
	Seed uint64           `json:"seed"`
	Cfg  map[string]int64 `json:"cfg,omitempty"`
	Ops  []Op             `json:"ops"`
}

// Switch is one scheduling decision: at global yield number At, hand the baton to task To.
type Switch struct {
	At uint64 `json:"at"`
	To int    `json:"to"`
}

// Scenario is one simulated run as plain data: executing it is a pure function of this
// value and the code under test. It is what the shrinker edits and what a replay file holds.
type Scenario struct {
	Prop string           `json:"property"`
	Seed uint64           `json:"seed"` // run seed: task-local streams (map order, sink plans) derive from it
	Run  uint64           `json:"run"`
	Cfg  map[string]int64 `json:"cfg,omitempty"`
	Ops  []Op             `json:"ops,omitempty"`

	Tasks []Task `json:"tasks,omitempty"`
	// Explicit schedule. When nil, switches are drawn from the sched stream with
	// probability SwitchPPM/1e6 at each yield (at most 30000 per run) and recorded.
	Sched     []Switch `json:"sched,omitempty"`
	SwitchPPM int      `json:"switch_ppm,omitempty"`
}

func (s *Scenario) C(key string) int64 { return s.Cfg[key] }

func (s *Scenario) Clone() *Scenario {
	b, _ := json.Marshal(s)
	var c Scenario
	_ = json.Unmarshal(b, &c)
	return &c
}

// Hash identifies the scenario content (not the run index or seed bookkeeping).
func (s *Scenario) Hash() uint64 {
	h := HashString(s.Prop)
	h = hashCfg(h, s.Cfg)
	h = hashOps(h, s.Ops)
	for _, t := range s.Tasks {
		h = HashBytes(h, []byte(t.Role))
		h = hashCfg(h, t.Cfg)
		h = hashOps(h, t.Ops)
	}
	for _, sw := range s.Sched {
		h = HashU64(h, sw.At)
		h = HashU64(h, uint64(sw.To))
	}
	h = HashU64(h, uint64(s.SwitchPPM))
	return h
}

func hashCfg(h uint64, c map[string]int64) uint64 {
	keys := make([]string, 0, len(c))
	for k := range c {
		keys = append(keys, k)
	}
	sort.Strings(keys)
	for _, k := range keys {
		h = HashBytes(h, []byte(k))
		h = HashU64(h, uint64(c[k]))
	}
	return h
}

func hashOps(h uint64, ops []Op) uint64 {
	for _, o := range ops {
		h = HashBytes(h, []byte(o.K))
		h = HashBytes(h, []byte(o.S))
		for _, n := range o.N {
			h = HashU64(h, uint64(n))
		}
		h = HashBytes(h, o.B)
		h = HashU64(h, 0xfe)
	}
	return h
}

// Violation is a property violation found by an oracle.
type Violation struct {
	Oracle string `json:"oracle"` // stable class name; shrinking keeps the class
	Msg    string `json:"msg"`
	Step   int    `json:"step"` // index of the op at which it was detected (-1: end of run)
	// Sig is a structural signature used to match known findings (DESIGN §3.6).
	Sig map[string]string `json:"sig,omitempty"`
	// NoShrink: the violation leaves the process in a state (e.g. a lock held for ever) in
	// which further candidates cannot be judged; report the scenario as found.
	NoShrink bool `json:"no_shrink,omitempty"`
}

func (v *Violation) String() string {
	return fmt.Sprintf("[%s] step %d: %s", v.Oracle, v.Step, v.Msg)
}

// ReplayFile is what a VIOLATION line points at.
type ReplayFile struct {
	Property  string     `json:"property"`
	BaseSeed  uint64     `json:"verif_seed"`
	Violation *Violation `json:"violation"`
	Scenario  *Scenario  `json:"scenario"`
	Original  struct {
		Ops      int `json:"ops"`
		Switches int `json:"switches"`
	} `json:"original_size"`
	ShrinkSteps int      `json:"shrink_candidates_tried"`
	Readable    []string `json:"readable,omitempty"`
	// History is set when the violation depends on state the library kept from earlier runs
	// of the same process (a package-level cache, counter, ...): the scenario alone does not
	// reproduce it in a fresh process, the worker's run sequence up to it does.
	History *RunHistory `json:"history,omitempty"`
}

// RunHistory names the runs one worker executed, in order: Worker, Worker+Workers, ... LastRun.
type RunHistory struct {
	Tier    string `json:"tier"`
	Worker  int    `json:"worker"`
	Workers int    `json:"workers"`
	LastRun uint64 `json:"last_run"`
}

func WriteReplay(path string, rf *ReplayFile) error {
	b, err := json.MarshalIndent(rf, "", " ")
	if err != nil {
		return err
	}
	return os.WriteFile(path, b, 0o644)
}

func ReadReplay(path string) (*ReplayFile, error) {
	b, err := os.ReadFile(path)
	if err != nil {
		return nil, err
	}
	var rf ReplayFile
	if err := json.Unmarshal(b, &rf); err != nil {
		return nil, err
	}
	if rf.Scenario == nil {
		return nil, fmt.Errorf("replay file %s has no scenario", path)
	}
	return &rf, nil
}

func (s *Scenario) Readable() []string {
	var out []string
	if len(s.Cfg) > 0 {
		keys := make([]string, 0, len(s.Cfg))
		for k := range s.Cfg {
			keys = append(keys, k)
		}
		sort.Strings(keys)
		var sb strings.Builder
		sb.WriteString("cfg:")
		for _, k := range keys {
			fmt.Fprintf(&sb, " %s=%#x", k, s.Cfg[k])
		}
		out = append(out, sb.String())
	}
	for i, o := range s.Ops {
		out = append(out, fmt.Sprintf("%3d %s", i, o.String()))
	}
	for ti, t := range s.Tasks {
		out = append(out, fmt.Sprintf("task %d role=%s", ti, t.Role))
		for i, o := range t.Ops {
			out = append(out, fmt.Sprintf("  %3d %s", i, o.String()))
		}
	}
	if len(s.Sched) > 0 {
		out = append(out, fmt.Sprintf("schedule: %d switch points", len(s.Sched)))
	}
	return out
}
