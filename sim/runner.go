package sim

import (
	"encoding/json"
	"fmt"
	"os"
	"os/exec"
	"path/filepath"
	"runtime"
	"sort"
	"strconv"
	"strings"
	"sync/atomic"
	"time"
)

// World is one property's simulated world: generator, executor, oracle.
type World interface {
	ID() string
	Level() string // evidence level: exploration | fault_enumeration
	Rule() string  // how scenarios are generated and what makes one non-trivial
	Assumptions() []string
	Components() map[string][]string // "real": ..., "stub": ...
	QuickRuns() int
	// Gen builds scenario number run from the gen stream r.
	Gen(r *Rand, tier string, run uint64) *Scenario
	// Exec applies the scenario to real code and the reference model in lock-step and
	// returns the first violation (nil: the property held). Pure function of sc and code.
	Exec(sc *Scenario, env *Env) *Violation
}

var Worlds = map[string]World{}

func Register(w World) { Worlds[w.ID()] = w }

// Finding is one entry of /verif/known_findings.json.
type Finding struct {
	ID       string `json:"id"`
	Property string `json:"property"`
	Status   string `json:"status"` // known | fixed
	What     string `json:"what"`
	Witness  string `json:"witness"` // replay file, relative to /verif
	Commit   string `json:"commit,omitempty"`
}

type FindingsFile struct {
	Findings []Finding `json:"findings"`
}

func LoadFindings(verifDir string) (*FindingsFile, error) {
	b, err := os.ReadFile(filepath.Join(verifDir, "known_findings.json"))
	if err != nil {
		if os.IsNotExist(err) {
			return &FindingsFile{}, nil
		}
		return nil, err
	}
	var f FindingsFile
	if err := json.Unmarshal(b, &f); err != nil {
		return nil, err
	}
	return &f, nil
}

// SafeExec executes a scenario, converting a panic of the harness itself into a
// HARNESS_PANIC pseudo-violation (reported with exit code 2, never as a VIOLATION) and a
// watchdog abort that the world did not handle into HARNESS_WATCHDOG.
func SafeExec(w World, sc *Scenario, env *Env) (v *Violation) {
	// The run executes on a goroutine of its own so that a library call that never returns
	// (a lock that is never released, a receive nobody answers) becomes a verdict instead of
	// a hung or dead worker: no yield point reached, process-wide, for 20 s of real time
	// (30 s for C18, whose scheduler has a 20 s detector of its own with a better message).
	limit := 10
	if w.ID() == "C18" {
		limit = 15
	}
	done := make(chan *Violation, 1)
	go func() { done <- safeExec(w, sc, env) }()
	ticker := time.NewTicker(2 * time.Second)
	defer ticker.Stop()
	last, idle := atomic.LoadUint64(&globalTick), 0
	// goroutines the library started itself and waits for (a table filled by four workers)
	// are progress too, for at most ten times the limit
	lastChild, childOnly := libraryGoroutineTicks(), 0
	for {
		select {
		case v := <-done:
			return v
		case <-ticker.C:
			cur := atomic.LoadUint64(&globalTick)
			if cur != last {
				last, idle, childOnly = cur, 0, 0
				continue
			}
			if ct := libraryGoroutineTicks(); ct != lastChild && childOnly < 10*limit {
				lastChild, idle = ct, 0
				childOnly++
				continue
			}
			idle++
			if idle >= limit {
				return &Violation{Oracle: "call_never_returns", Step: -1, NoShrink: true,
					Msg: fmt.Sprintf("the run reached no yield point for %d s (after %d yield points in this process): a call into the library blocks for ever (the goroutine is abandoned)", 2*limit, cur)}
			}
		}
	}
}

func safeExec(w World, sc *Scenario, env *Env) (v *Violation) {
	defer func() {
		Deactivate()
		if r := recover(); r != nil {
			if wd, ok := r.(WatchdogAbort); ok {
				v = &Violation{Oracle: "HARNESS_WATCHDOG", Msg: wd.Error(), Step: -1}
				return
			}
			buf := make([]byte, 4096)
			n := runtime.Stack(buf, false)
			v = &Violation{Oracle: "HARNESS_PANIC", Msg: PanicString(r) + "\n" + string(buf[:n]), Step: -1}
		}
	}()
	return w.Exec(sc, env)
}

type workerResult struct {
	Stats     *Stats     `json:"stats"`
	Violation *Violation `json:"violation,omitempty"`
	Scenario  *Scenario  `json:"scenario,omitempty"`
	Runs      uint64     `json:"runs"`
	LastRun   uint64     `json:"last_run"`
}

func baseSeed() uint64 {
	if s := os.Getenv("VERIF_SEED"); s != "" {
		if v, err := strconv.ParseUint(s, 0, 64); err == nil {
			return v
		}
		if v, err := strconv.ParseInt(s, 0, 64); err == nil {
			return uint64(v)
		}
	}
	return 1
}

func relaxFromEnv() map[string]bool {
	m := map[string]bool{}
	for _, id := range strings.Split(os.Getenv("SIM_RELAX"), ",") {
		if id != "" {
			m[id] = true
		}
	}
	return m
}

// GenScenario builds the scenario of run index run (pure function of seed, property, run).
func GenScenario(w World, base uint64, tier string, run uint64) *Scenario {
	seed := SeedFor(base, w.ID(), run)
	sc := w.Gen(ForkSeed(seed, "gen"), tier, run)
	sc.Prop = w.ID()
	sc.Seed = seed
	sc.Run = run
	return sc
}

// WorkerMain runs runs i, i+n, i+2n, ... and writes a workerResult.
func WorkerMain(prop, tier string, i, n int, out string, deadlineUnix int64, maxRuns uint64) int {
	w, ok := Worlds[prop]
	if !ok {
		fmt.Fprintf(os.Stderr, "unknown property %s\n", prop)
		return 2
	}
	realOut := os.Stdout // the library's view of os.Stdout is a scratch file from here on
	WatchStdout()
	base := baseSeed()
	relax := relaxFromEnv()
	st := NewStats()
	res := &workerResult{Stats: st}
	deadline := time.Unix(deadlineUnix, 0)
	logRuns := os.Getenv("SIM_EVENTLOG") != ""
	for run := uint64(i); run < maxRuns; run += uint64(n) {
		if time.Now().After(deadline) {
			break
		}
		sc := GenScenario(w, base, tier, run)
		env := NewEnv(st, relax, sc.Seed)
		st.BeginRun()
		v := SafeExec(w, sc, env)
		st.EndRun(sc.Hash())
		if len(sc.Tasks) == 0 {
			st.Yields += env.Yields()
		}
		res.Runs++
		res.LastRun = run
		if logRuns {
			// determinism self-test: one line per run, a pure function of seed and code
			var sh uint64
			for _, h := range setToList(st.Schedules) {
				sh = HashU64(sh, h)
			}
			fmt.Fprintf(realOut, "RUN %d sc=%016x obs=%016x perm=%016x yields=%d allyields=%d switches=%d sched=%016x states=%d v=%v\n", run, sc.Hash(), env.Digest(), env.PermLog(), env.Yields(), st.Yields, st.Switches, sh, len(st.States), v != nil)
		}
		if len(st.Samples) < 3 {
			st.Samples = append(st.Samples, map[string]interface{}{"run": run, "seed": sc.Seed, "scenario": sc.Readable()})
		}
		if v != nil {
			res.Violation = v
			res.Scenario = sc
			break
		}
	}
	st.Seal()
	b, err := json.Marshal(res)
	if err != nil {
		fmt.Fprintf(os.Stderr, "marshal: %v\n", err)
		return 2
	}
	if err := os.WriteFile(out, b, 0o644); err != nil {
		fmt.Fprintf(os.Stderr, "write: %v\n", err)
		return 2
	}
	return 0
}

// ReplayMain executes one replay file in this (fresh) process.
// exit 1 + VIOLATION line when the recorded violation class reproduces, 0 when the scenario
// passes, 2 when something else happens.
func ReplayMain(prop, path string, quiet bool) int {
	w, ok := Worlds[prop]
	if !ok {
		fmt.Fprintf(os.Stderr, "unknown property %s\n", prop)
		return 2
	}
	rf, err := ReadReplay(path)
	if err != nil {
		fmt.Fprintf(os.Stderr, "replay: %v\n", err)
		return 2
	}
	out := os.Stdout // the real one: the library's view of os.Stdout is a scratch file from here on
	WatchStdout()
	st := NewStats()
	var v *Violation
	if h := rf.History; h != nil && h.Workers > 0 {
		// history replay: the same run sequence the worker executed, in a fresh process
		base := rf.BaseSeed
		for run := uint64(h.Worker); run <= h.LastRun; run += uint64(h.Workers) {
			sc := GenScenario(w, base, h.Tier, run)
			env := NewEnv(st, relaxFromEnv(), sc.Seed)
			if v = SafeExec(w, sc, env); v != nil {
				fmt.Fprintf(out, "history replay: run %d of the sequence %d, %d, ... %d violates\n", run, h.Worker, h.Worker+h.Workers, h.LastRun)
				break
			}
		}
	} else {
		env := NewEnv(st, relaxFromEnv(), rf.Scenario.Seed)
		v = SafeExec(w, rf.Scenario, env)
	}
	if v == nil {
		if !quiet {
			fmt.Fprintf(out, "replay %s: scenario passes (no violation)\n", path)
		}
		return 0
	}
	if strings.HasPrefix(v.Oracle, "HARNESS_") {
		fmt.Fprintf(os.Stderr, "replay %s: %s\n", path, v)
		return 2
	}
	fmt.Fprintf(out, "replay %s: %s\n", path, v)
	if rf.Violation != nil && rf.Violation.Oracle != v.Oracle {
		fmt.Fprintf(out, "note: recorded oracle was %s\n", rf.Violation.Oracle)
	}
	fmt.Fprintf(out, "VIOLATION property=%s replay=%s\n", prop, path)
	return 1
}

func verifDir() string {
	if d := os.Getenv("VERIF_DIR"); d != "" {
		return d
	}
	return "/verif"
}

// CheckMain is the parent of a check: known-finding witnesses, worker fan-out, merge,
// shrink, replay verification, evidence. Exit code 0 / 1 / 2 per DESIGN §3.5.
func CheckMain(prop, tier string) int {
	t0 := time.Now()
	w, ok := Worlds[prop]
	if !ok {
		fmt.Fprintf(os.Stderr, "unknown property %s\n", prop)
		return 2
	}
	base := baseSeed()
	fmt.Printf("VERIF_SEED=%d property=%s tier=%s instrumented=%v\n", base, prop, tier, Instrumented)
	vdir := verifDir()
	self, err := os.Executable()
	if err != nil {
		fmt.Fprintf(os.Stderr, "executable: %v\n", err)
		return 2
	}

	ff, err := LoadFindings(vdir)
	if err != nil {
		fmt.Fprintf(os.Stderr, "known_findings.json: %v\n", err)
		return 2
	}
	relax := map[string]bool{}
	var relaxIDs []string
	var regress []string // replay paths of fixed findings that fail again
	knownNotes := map[string]string{}
	// known findings first: their witnesses decide which narrow relaxations are in force;
	// then the witnesses of fixed findings, which must pass under exactly those relaxations
	for pass := 0; pass < 2; pass++ {
		for _, f := range ff.Findings {
			if f.Property != prop || (pass == 0) != (f.Status == "known") {
				continue
			}
			path := filepath.Join(vdir, f.Witness)
			rf, err := ReadReplay(path)
			if err != nil {
				fmt.Fprintf(os.Stderr, "finding %s: %v\n", f.ID, err)
				return 2
			}
			rl := map[string]bool{}
			if pass == 1 {
				rl = relax
			}
			env := NewEnv(NewStats(), rl, rf.Scenario.Seed)
			v := SafeExec(w, rf.Scenario, env)
			if v != nil && strings.HasPrefix(v.Oracle, "HARNESS_") {
				fmt.Fprintf(os.Stderr, "finding %s witness: %s\n", f.ID, v)
				return 2
			}
			switch f.Status {
			case "known":
				if v != nil {
					fmt.Printf("KNOWN-FINDING: property=%s %s: %s\n", prop, f.ID, f.What)
					relax[f.ID] = true
					relaxIDs = append(relaxIDs, f.ID)
					knownNotes[f.ID] = "witness still fails: " + v.Oracle
				} else {
					knownNotes[f.ID] = "witness no longer fails; strict model in force"
				}
			case "fixed":
				if v != nil {
					fmt.Printf("fixed finding %s has returned: %s\n", f.ID, v)
					regress = append(regress, path)
				} else {
					knownNotes[f.ID] = "fixed; witness passes"
				}
			}
		}
	}

	nw := runtime.NumCPU()
	if s := os.Getenv("SIM_WORKERS"); s != "" {
		if v, err := strconv.Atoi(s); err == nil && v > 0 {
			nw = v
		}
	}
	budget := 120 * time.Second
	maxRuns := uint64(w.QuickRuns())
	if tier == "thorough" {
		budget = 900 * time.Second
		maxRuns = ^uint64(0) >> 1
	}
	if s := os.Getenv("VERIF_BUDGET_S"); s != "" {
		if v, err := strconv.Atoi(s); err == nil && v > 0 {
			budget = time.Duration(v) * time.Second
		}
	}
	if s := os.Getenv("SIM_MAXRUNS"); s != "" {
		if v, err := strconv.ParseUint(s, 10, 64); err == nil {
			maxRuns = v
		}
	}
	deadline := time.Now().Add(budget)

	tmp, err := os.MkdirTemp("", "simcheck-"+prop+"-")
	if err != nil {
		fmt.Fprintf(os.Stderr, "tmp: %v\n", err)
		return 2
	}
	defer os.RemoveAll(tmp)

	type wk struct {
		cmd *exec.Cmd
		out string
	}
	var wks []wk
	for i := 0; i < nw; i++ {
		out := filepath.Join(tmp, fmt.Sprintf("w%d.json", i))
		cmd := exec.Command(self, "worker", prop, tier, strconv.Itoa(i), strconv.Itoa(nw), out,
			strconv.FormatInt(deadline.Unix(), 10), strconv.FormatUint(maxRuns, 10))
		cmd.Env = append(os.Environ(), "SIM_RELAX="+strings.Join(relaxIDs, ","), "GOMAXPROCS=2",
			fmt.Sprintf("VERIF_SEED=%d", base))
		cmd.Stderr = os.Stderr
		cmd.Stdout = os.Stdout
		if err := cmd.Start(); err != nil {
			fmt.Fprintf(os.Stderr, "start worker: %v\n", err)
			return 2
		}
		wks = append(wks, wk{cmd, out})
	}
	// harness watchdog: a worker that outlives the deadline by far is a harness problem
	killer := time.AfterFunc(budget+300*time.Second, func() {
		for _, k := range wks {
			_ = k.cmd.Process.Kill()
		}
	})
	defer killer.Stop()

	total := NewStats()
	var viols []workerResult
	var runs uint64
	bad := false
	for _, k := range wks {
		if err := k.cmd.Wait(); err != nil {
			fmt.Fprintf(os.Stderr, "worker failed: %v\n", err)
			bad = true
			continue
		}
		b, err := os.ReadFile(k.out)
		if err != nil {
			fmt.Fprintf(os.Stderr, "worker output: %v\n", err)
			bad = true
			continue
		}
		var r workerResult
		if err := json.Unmarshal(b, &r); err != nil {
			fmt.Fprintf(os.Stderr, "worker output: %v\n", err)
			bad = true
			continue
		}
		total.Merge(r.Stats)
		runs += r.Runs
		if r.Violation != nil {
			viols = append(viols, r)
		}
	}
	if bad {
		return 2
	}
	sort.Slice(viols, func(i, j int) bool { return viols[i].Scenario.Run < viols[j].Scenario.Run })

	exit := 0
	nViol := 0
	unreproduced := 0 // observed by a worker, not reproduced by replays, library has goroutines of its own
	var replayPaths []string
	for _, p := range regress {
		fmt.Printf("VIOLATION property=%s replay=%s\n", prop, p)
		replayPaths = append(replayPaths, p)
		nViol++
		exit = 1
	}
	reported := map[string]bool{}
	for _, r := range viols {
		v := r.Violation
		if strings.HasPrefix(v.Oracle, "HARNESS_") {
			fmt.Fprintf(os.Stderr, "harness failure in run %d: %s\n", r.Scenario.Run, v)
			writeEvidence(w, tier, base, total, t0, nViol, map[string]interface{}{"harness_failure": v.String()}, knownNotes, runs)
			return 2
		}
		if reported[v.Oracle] {
			continue // one minimised replay per violation class
		}
		reported[v.Oracle] = true
		fmt.Printf("violation in run %d (seed %d): %s\n", r.Scenario.Run, r.Scenario.Seed, v)
		orig := r.Scenario
		// make the schedule explicit before shrinking, so that removing ops does not
		// re-draw the interleaving
		fails := func(c *Scenario) bool {
			env := NewEnv(NewStats(), relax, c.Seed)
			cv := SafeExec(w, c, env)
			return cv != nil && cv.Oracle == v.Oracle
		}
		min, tries := orig, 0
		if !v.NoShrink {
			min, tries = Shrink(orig, fails, 90*time.Second, 4000)
		}
		mv := v
		if !v.NoShrink {
			env := NewEnv(NewStats(), relax, min.Seed)
			mv = SafeExec(w, min, env)
			if mv == nil || mv.Oracle != v.Oracle {
				min, mv = orig, v
			}
		}
		rf := &ReplayFile{Property: prop, BaseSeed: base, Violation: mv, Scenario: min, ShrinkSteps: tries, Readable: min.Readable()}
		rf.Original.Ops = countOps(orig)
		rf.Original.Switches = len(orig.Sched)
		_ = os.MkdirAll(filepath.Join(vdir, "replays"), 0o755)
		path := filepath.Join(vdir, "replays", fmt.Sprintf("%s-%d-%016x.json", prop, base, min.Hash()))
		if err := WriteReplay(path, rf); err != nil {
			fmt.Fprintf(os.Stderr, "write replay: %v\n", err)
			return 2
		}
		// the replay must reproduce in a fresh process, else it is a harness bug (exit 2)
		cmd := exec.Command(self, "replay", prop, path)
		cmd.Env = append(os.Environ(), "SIM_RELAX="+strings.Join(relaxIDs, ","))
		outb, _ := cmd.CombinedOutput()
		code := -1
		if cmd.ProcessState != nil {
			code = cmd.ProcessState.ExitCode()
		}
		if nGo, _ := strconv.Atoi(os.Getenv("SIM_LIB_GOSTMTS")); nGo > 0 && (code != 1 || !strings.Contains(string(outb), "["+mv.Oracle+"]")) {
			// The library starts goroutines of its own, which the simulator neither schedules
			// nor can replay: how far they get is decided by the Go runtime. The violation was
			// observed on real code; the replay is repeated (it is a sample of that race).
			for attempt := 2; attempt <= 20; attempt++ {
				rc := exec.Command(self, "replay", prop, path)
				rc.Env = cmd.Env
				if attempt%2 == 0 {
					rc.Env = append(append([]string{}, cmd.Env...), "GOMAXPROCS=1") // another sample of the runtime's scheduling
				}
				ob, _ := rc.CombinedOutput()
				if rc.ProcessState != nil && rc.ProcessState.ExitCode() == 1 && strings.Contains(string(ob), "["+mv.Oracle+"]") {
					code, outb = 1, ob
					fmt.Printf("note: the library contains %d go statement(s); goroutines it starts are outside the simulator's control, so this replay is not exact: it reproduced in attempt %d\n", nGo, attempt)
					break
				}
			}
		}
		if nGo, _ := strconv.Atoi(os.Getenv("SIM_LIB_GOSTMTS")); nGo > 0 && (code != 1 || !strings.Contains(string(outb), "["+mv.Oracle+"]")) {
			// still not reproduced: a race between the library's own goroutines that the replay
			// did not hit again. Not reported on its own (no exact replay); if no other violation
			// of this run reproduces, the check ends as inconclusive (exit 2).
			fmt.Printf("note: a worker observed %s, which 20 replays did not reproduce (the library starts goroutines of its own); not reported\n", mv)
			unreproduced++
			continue
		}
		if code != 1 || !strings.Contains(string(outb), "["+mv.Oracle+"]") {
			// The scenario alone does not fail in a fresh process. If the worker's run sequence
			// up to it does, the library keeps state across runs (package-level): that is a real,
			// replayable finding — the replay file then carries the sequence instead.
			rf.Scenario, rf.Violation, rf.Readable = orig, v, orig.Readable()
			rf.History = &RunHistory{Tier: tier, Worker: int(orig.Run % uint64(nw)), Workers: nw, LastRun: orig.Run}
			hpath := filepath.Join(vdir, "replays", fmt.Sprintf("%s-%d-history-%d.json", prop, base, orig.Run))
			if err := WriteReplay(hpath, rf); err != nil {
				fmt.Fprintf(os.Stderr, "write replay: %v\n", err)
				return 2
			}
			hcmd := exec.Command(self, "replay", prop, hpath)
			hcmd.Env = append(os.Environ(), "SIM_RELAX="+strings.Join(relaxIDs, ","), fmt.Sprintf("VERIF_SEED=%d", base))
			houtb, _ := hcmd.CombinedOutput()
			hcode := -1
			if hcmd.ProcessState != nil {
				hcode = hcmd.ProcessState.ExitCode()
			}
			if hcode != 1 {
				fmt.Fprintf(os.Stderr, "replay of %s did not reproduce in a fresh process (exit %d), nor did the worker's run sequence (exit %d):\n%s\n%s\n", path, code, hcode, outb, houtb)
				writeEvidence(w, tier, base, total, t0, nViol, map[string]interface{}{"harness_failure": "replay did not reproduce"}, knownNotes, runs)
				return 2
			}
			fmt.Printf("the scenario alone passes in a fresh process, the worker's run sequence %d, %d, ... %d reproduces it: the library keeps state across runs\n", rf.History.Worker, rf.History.Worker+nw, orig.Run)
			fmt.Printf("VIOLATION property=%s replay=%s\n", prop, hpath)
			replayPaths = append(replayPaths, hpath)
			nViol++
			exit = 1
			continue
		}
		fmt.Printf("minimised: %d ops -> %d ops (%d candidates tried): %s\n", rf.Original.Ops, countOps(min), tries, mv)
		for _, l := range min.Readable() {
			fmt.Printf("    %s\n", l)
		}
		fmt.Printf("VIOLATION property=%s replay=%s\n", prop, path)
		replayPaths = append(replayPaths, path)
		nViol++
		exit = 1
	}
	extra := map[string]interface{}{}
	if len(replayPaths) > 0 {
		extra["replays"] = replayPaths
	}
	if err := writeEvidence(w, tier, base, total, t0, nViol, extra, knownNotes, runs); err != nil {
		fmt.Fprintf(os.Stderr, "evidence: %v\n", err)
		return 2
	}
	fmt.Printf("%s %s: %d runs, %d distinct non-trivial, %d violations, %.1fs\n", prop, tier, runs, len(total.Nontrivial), nViol, time.Since(t0).Seconds())
	if exit == 0 && unreproduced > 0 {
		fmt.Fprintf(os.Stderr, "inconclusive: %d violation(s) observed by workers could not be replayed (goroutines started by the library are outside the simulator's control)\n", unreproduced)
		return 2
	}
	return exit
}

func countOps(s *Scenario) int {
	n := len(s.Ops)
	for _, t := range s.Tasks {
		n += len(t.Ops)
	}
	return n
}

func writeEvidence(w World, tier string, base uint64, st *Stats, t0 time.Time, nViol int, extra map[string]interface{}, known map[string]string, runs uint64) error {
	wall := time.Since(t0).Seconds()
	cov := map[string]interface{}{
		"evaluations":         st.Evaluations,
		"distinct_nontrivial": len(st.Nontrivial),
		"rule":                w.Rule(),
		"samples":             st.Samples,
		"exhaustive":          false,
		"runs_per_hour":       int64(float64(runs) / wall * 3600),
		"seeds":               fmt.Sprintf("VERIF_SEED=%d; run r uses splitmix64(VERIF_SEED, property, r), r in [0,%d)", base, runs),
		"sim_time": map[string]interface{}{
			"emulated_cpu_cycles": st.SimCycles,
			"operations_executed": st.SimOps,
			"yield_points_passed": st.Yields,
		},
		"faults_injected":    st.Faults,
		"probes":             st.Probes,
		"aborted_runs":       st.Aborted,
		"distinct_schedules": len(st.Schedules),
		"context_switches":   st.Switches,
		"switches_by_site":   st.SwitchBySite,
		"distinct_states":    len(st.States),
		"components":         w.Components(),
		"instrumented_build": Instrumented,
		"known_findings":     known,
		"notes":              st.Notes,
	}
	if cc := os.Getenv("SIM_CROSSCHECK"); cc != "" {
		cov["plain_tree_crosscheck"] = cc
	}
	if len(st.Samples) == 0 {
		cov["samples"] = []interface{}{"no run completed"}
	}
	for k, v := range extra {
		cov[k] = v
	}
	ev := map[string]interface{}{
		"property_id": w.ID(),
		"tier":        tier,
		"seed":        int64(base & 0x7fffffffffffffff),
		"level":       w.Level(),
		"coverage":    cov,
		"assumptions": w.Assumptions(),
		"wall_s":      wall,
		"violations":  nViol,
	}
	b, err := json.MarshalIndent(ev, "", " ")
	if err != nil {
		return err
	}
	dir := filepath.Join(verifDir(), "evidence")
	if d := os.Getenv("SIM_EVIDENCE_DIR"); d != "" {
		dir = d // runs against a tree other than /repo (mutants) must not overwrite evidence
	}
	if err := os.MkdirAll(dir, 0o755); err != nil {
		return err
	}
	return os.WriteFile(filepath.Join(dir, w.ID()+".json"), b, 0o644)
}

// ShowMain prints the scenario of one run.
func ShowMain(prop, tier string, run uint64) int {
	w, ok := Worlds[prop]
	if !ok {
		return 2
	}
	sc := GenScenario(w, baseSeed(), tier, run)
	for _, l := range sc.Readable() {
		fmt.Println(l)
	}
	return 0
}
