package sim

import (
	"sort"
	"time"
)

// Shrink minimises a failing scenario by delta debugging over ops, parties, switch points,
// then argument simplification. A candidate is kept only if `fails` says the same oracle
// still fires. The scenario is data, so every candidate is an ordinary scenario that can be
// replayed on its own.
func Shrink(sc *Scenario, fails func(*Scenario) bool, budget time.Duration, maxTries int) (*Scenario, int) {
	deadline := time.Now().Add(budget)
	tries := 0
	try := func(c *Scenario) bool {
		if tries >= maxTries || time.Now().After(deadline) {
			return false
		}
		tries++
		return fails(c)
	}
	best := sc.Clone()

	for round := 0; round < 4; round++ {
		before := best.Hash()

		// parties
		for ti := len(best.Tasks) - 1; ti >= 0 && len(best.Tasks) > 1; ti-- {
			c := best.Clone()
			c.Tasks = append(c.Tasks[:ti], c.Tasks[ti+1:]...)
			var ns []Switch
			for _, sw := range c.Sched {
				if sw.To == ti {
					continue
				}
				if sw.To > ti {
					sw.To--
				}
				ns = append(ns, sw)
			}
			c.Sched = ns
			if best.Sched != nil && c.Sched == nil {
				c.Sched = []Switch{}
			}
			if try(c) {
				best = c
			}
		}

		// ops of the single-party script
		best.Ops = ddminOps(best.Ops, func(ops []Op) bool {
			c := best.Clone()
			c.Ops = ops
			return try(c)
		})
		// ops of each party
		for ti := range best.Tasks {
			ti := ti
			best.Tasks[ti].Ops = ddminOps(best.Tasks[ti].Ops, func(ops []Op) bool {
				c := best.Clone()
				c.Tasks[ti].Ops = ops
				return try(c)
			})
		}
		// switch points
		if len(best.Sched) > 0 {
			best.Sched = ddminSw(best.Sched, func(sw []Switch) bool {
				c := best.Clone()
				c.Sched = sw
				if c.Sched == nil {
					c.Sched = []Switch{}
				}
				return try(c)
			})
			if best.Sched == nil {
				best.Sched = []Switch{}
			}
		}
		// configuration values toward zero
		best.Cfg = shrinkCfg(best.Cfg, func(cfg map[string]int64) bool {
			c := best.Clone()
			c.Cfg = cfg
			return try(c)
		})
		for ti := range best.Tasks {
			ti := ti
			best.Tasks[ti].Cfg = shrinkCfg(best.Tasks[ti].Cfg, func(cfg map[string]int64) bool {
				c := best.Clone()
				c.Tasks[ti].Cfg = cfg
				return try(c)
			})
		}
		// op arguments
		shrinkArgs(best.Ops, func(ops []Op) bool {
			c := best.Clone()
			c.Ops = ops
			return try(c)
		}, func(ops []Op) { best.Ops = ops })
		for ti := range best.Tasks {
			ti := ti
			shrinkArgs(best.Tasks[ti].Ops, func(ops []Op) bool {
				c := best.Clone()
				c.Tasks[ti].Ops = ops
				return try(c)
			}, func(ops []Op) { best.Tasks[ti].Ops = ops })
		}
		if best.Hash() == before || tries >= maxTries || time.Now().After(deadline) {
			break
		}
	}
	return best, tries
}

func ddminOps(ops []Op, fails func([]Op) bool) []Op {
	n := 2
	for len(ops) >= 1 {
		if n > len(ops) {
			n = len(ops)
		}
		chunk := (len(ops) + n - 1) / n
		reduced := false
		for start := 0; start < len(ops); start += chunk {
			end := start + chunk
			if end > len(ops) {
				end = len(ops)
			}
			cand := append(append([]Op{}, ops[:start]...), ops[end:]...)
			if fails(cand) {
				ops = cand
				if n > 2 {
					n--
				}
				reduced = true
				break
			}
		}
		if !reduced {
			if chunk == 1 {
				break
			}
			n *= 2
		}
	}
	return ops
}

func ddminSw(sw []Switch, fails func([]Switch) bool) []Switch {
	n := 2
	for len(sw) >= 1 {
		if n > len(sw) {
			n = len(sw)
		}
		chunk := (len(sw) + n - 1) / n
		reduced := false
		for start := 0; start < len(sw); start += chunk {
			end := start + chunk
			if end > len(sw) {
				end = len(sw)
			}
			cand := append(append([]Switch{}, sw[:start]...), sw[end:]...)
			if fails(cand) {
				sw = cand
				if n > 2 {
					n--
				}
				reduced = true
				break
			}
		}
		if !reduced {
			if chunk == 1 {
				break
			}
			n *= 2
		}
	}
	return sw
}

func shrinkCfg(cfg map[string]int64, fails func(map[string]int64) bool) map[string]int64 {
	if len(cfg) == 0 {
		return cfg
	}
	keys := make([]string, 0, len(cfg))
	for k := range cfg {
		keys = append(keys, k)
	}
	sort.Strings(keys)
	cp := func() map[string]int64 {
		m := map[string]int64{}
		for k, v := range cfg {
			m[k] = v
		}
		return m
	}
	for _, k := range keys {
		v := cfg[k]
		for _, cand := range simpler(v) {
			m := cp()
			m[k] = cand
			if fails(m) {
				cfg = m
				break
			}
		}
	}
	return cfg
}

func shrinkArgs(ops []Op, fails func([]Op) bool, commit func([]Op)) {
	cp := func() []Op {
		out := make([]Op, len(ops))
		for i, o := range ops {
			o.N = append([]int64{}, o.N...)
			o.B = append(HexBytes{}, o.B...)
			out[i] = o
		}
		return out
	}
	for i := range ops {
		// data blocks: shorter
		for len(ops[i].B) > 0 {
			c := cp()
			c[i].B = c[i].B[:len(c[i].B)/2]
			if fails(c) {
				ops = c
				commit(ops)
			} else {
				break
			}
		}
		if len(ops[i].B) > 1 {
			c := cp()
			c[i].B = c[i].B[:len(c[i].B)-1]
			if fails(c) {
				ops = c
				commit(ops)
			}
		}
		// argument lists: shorter (missing arguments read as 0)
		for len(ops[i].N) > 0 {
			c := cp()
			c[i].N = c[i].N[:len(c[i].N)-1]
			if fails(c) {
				ops = c
				commit(ops)
			} else {
				break
			}
		}
		for j := 0; j < len(ops[i].N) && len(ops[i].N) > 1; j++ {
			c := cp()
			c[i].N = append(c[i].N[:j], c[i].N[j+1:]...)
			if fails(c) {
				ops = c
				commit(ops)
				j--
			}
		}
		for j := range ops[i].N {
			v := ops[i].N[j]
			for _, cand := range simpler(v) {
				c := cp()
				c[i].N[j] = cand
				if fails(c) {
					ops = c
					commit(ops)
					break
				}
			}
		}
	}
}

// simpler lists candidate replacements for v, simplest first.
func simpler(v int64) []int64 {
	switch {
	case v == 0:
		return nil
	case v < 0:
		return []int64{0, v / 2, v + 1}
	case v == 1:
		return []int64{0}
	}
	return []int64{0, v / 2, v - 1}
}
