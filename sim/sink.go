package sim

import (
	"errors"
)

// ErrSink is the error injected by a faulty sink.
var ErrSink = errors.New("simulated sink failure")

// Sink plans (seams S3, S4, S5).
const (
	SinkOK    = 0 // every write succeeds
	SinkErrAt = 1 // write number K (0-based) and all later ones return (0, ErrSink)
	SinkShort = 2 // write number K returns (n < len, ErrSink); later ones fail
	SinkDead  = 3 // every write fails
)

// SimSink is the simulator's io.Writer. It yields *before* looking at the bytes, so a
// library buffer that is reused while the sink still holds it is exposed under C18; it
// never returns a short count with a nil error (that would be the harness breaking the
// io.Writer contract).
type SimSink struct {
	Env    *Env
	Plan   int
	K      int
	Writes [][]byte
	Calls  int
	Failed int
	Cur    []byte // bytes accepted since the last Mark
}

func NewSink(e *Env, plan, k int) *SimSink { return &SimSink{Env: e, Plan: plan, K: k} }

func (s *SimSink) Write(p []byte) (int, error) {
	if s.Env != nil {
		s.Env.Yield("sink.write")
	}
	idx := s.Calls
	s.Calls++
	switch s.Plan {
	case SinkDead:
		s.fail("sink_dead")
		return 0, ErrSink
	case SinkErrAt:
		if idx >= s.K {
			s.fail("sink_err")
			return 0, ErrSink
		}
	case SinkShort:
		if idx == s.K {
			n := len(p) / 2
			s.accept(p[:n])
			s.fail("sink_short")
			return n, ErrSink
		}
		if idx > s.K {
			s.fail("sink_err")
			return 0, ErrSink
		}
	}
	s.accept(p)
	return len(p), nil
}

func (s *SimSink) accept(p []byte) {
	c := make([]byte, len(p))
	copy(c, p)
	s.Writes = append(s.Writes, c)
	s.Cur = append(s.Cur, c...)
	if s.Env != nil {
		s.Env.ObsBytes(c)
	}
}

func (s *SimSink) fail(kind string) {
	s.Failed++
	if s.Env != nil {
		if s.Env.Stats != nil {
			s.Env.Stats.Fault(kind)
		}
		s.Env.FaultYield("sink.fault")
	}
}

// All returns everything the sink accepted.
func (s *SimSink) All() []byte {
	var out []byte
	for _, w := range s.Writes {
		out = append(out, w...)
	}
	return out
}

// RCSink adds the optional Reserve/Commit methods of emulator.Reserver / Committer.
type RCSink struct {
	*SimSink
	Reserves []int
	Commits  int
}

func (s *RCSink) Reserve(n int) {
	if s.Env != nil {
		s.Env.Yield("sink.reserve")
	}
	s.Reserves = append(s.Reserves, n)
}

func (s *RCSink) Commit() {
	if s.Env != nil {
		s.Env.Yield("sink.commit")
	}
	s.Commits++
}
