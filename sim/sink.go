package sim

import (
	"errors"
	"io"
)

// ErrSink is the error injected by a faulty sink.
var ErrSink = errors.New("simulated sink failure")

// Sink plans (seams S3, S4, S5).
const (
	SinkOK    = 0 // every write succeeds
	SinkErrAt = 1 // write number K (0-based) and all later ones return (0, ErrSink)
	SinkShort = 2 // write number K returns (n < len, ErrSink); later ones fail
	SinkDead  = 3 // every write fails
	SinkPanic = 4 // write number K panics (a bounded buffer, a test logger calling FailNow)
	// SinkShortOnce: write number K takes half of its bytes and reports io.ErrShortWrite (a
	// frame that is full); every other write, later ones included, succeeds
	SinkShortOnce = 5
	// SinkErrOnce: write number K is refused (0, ErrSink); every other write, later ones
	// included, succeeds (a one-shot fault, a bounded buffer that is drained in time)
	SinkErrOnce = 6
)

// ErrSinkPanic is the value a panicking sink panics with.
var ErrSinkPanic = errors.New("simulated sink panic")

// SimSink is the simulator's io.Writer. It yields *before* looking at the bytes, so a
// library buffer that is reused while the sink still holds it is exposed under C18; it
// never returns a short count with a nil error (that would be the harness breaking the
// io.Writer contract).
type SimSink struct {
	Env    *Env
	Plan   int
	K      int
	Writes [][]byte
	Calls  int
	Failed int
	Cur    []byte // bytes accepted since the last Mark
	// Panicked: the sink has panicked (plan SinkPanic)
	Panicked bool
}

func NewSink(e *Env, plan, k int) *SimSink { return &SimSink{Env: e, Plan: plan, K: k} }

func (s *SimSink) Write(p []byte) (int, error) {
	if s.Env != nil {
		s.Env.Yield("sink.write")
	}
	idx := s.Calls
	s.Calls++
	switch s.Plan {
	case SinkErrOnce:
		if idx == s.K {
			s.fail("sink_err_once")
			return 0, ErrSink
		}
	case SinkShortOnce:
		if idx == s.K {
			n := len(p) / 2
			s.accept(p[:n])
			s.fail("sink_short_once")
			return n, io.ErrShortWrite
		}
	case SinkPanic:
		if idx == s.K {
			s.Panicked = true
			s.fail("sink_panic")
			panic(ErrSinkPanic)
		}
	case SinkDead:
		s.fail("sink_dead")
		return 0, ErrSink
	case SinkErrAt:
		if idx >= s.K {
			s.fail("sink_err")
			return 0, ErrSink
		}
	case SinkShort:
		if idx == s.K {
			n := len(p) / 2
			s.accept(p[:n])
			s.fail("sink_short")
			return n, ErrSink
		}
		if idx > s.K {
			s.fail("sink_err")
			return 0, ErrSink
		}
	}
	s.accept(p)
	return len(p), nil
}

func (s *SimSink) accept(p []byte) {
	c := make([]byte, len(p))
	copy(c, p)
	s.Writes = append(s.Writes, c)
	s.Cur = append(s.Cur, c...)
	if s.Env != nil {
		s.Env.ObsBytes(c)
	}
}

func (s *SimSink) fail(kind string) {
	s.Failed++
	if s.Env != nil {
		if s.Env.Stats != nil {
			s.Env.Stats.Fault(kind)
		}
		s.Env.FaultYield("sink.fault")
	}
}

// All returns everything the sink accepted.
func (s *SimSink) All() []byte {
	var out []byte
	for _, w := range s.Writes {
		out = append(out, w...)
	}
	return out
}

// RCSink adds the optional Reserve/Commit methods of emulator.Reserver / Committer.
type RCSink struct {
	*SimSink
	Reserves []int
	Commits  int
}

func (s *RCSink) Reserve(n int) {
	if s.Env != nil {
		s.Env.Yield("sink.reserve")
	}
	if n < 0 {
		panic("RCSink.Reserve: negative count") // as bytes.Buffer.Grow does
	}
	s.Reserves = append(s.Reserves, n)
}

func (s *RCSink) Commit() {
	if s.Env != nil {
		s.Env.Yield("sink.commit")
	}
	s.Commits++
}

// RichSink is a SimSink that also offers the optional writer interfaces of package io
// (io.StringWriter, io.ByteWriter, io.ReaderFrom), as bytes.Buffer, strings.Builder,
// bufio.Writer and os.File do. Code that upgrades to one of them must deliver the same bytes.
type RichSink struct {
	*SimSink
	Upgrades int // calls that came in through an optional interface
}

func (s *RichSink) WriteString(str string) (int, error) {
	s.Upgrades++
	return s.SimSink.Write([]byte(str))
}

// Grow and Len make the sink look like a bytes.Buffer / strings.Builder to code that pre-sizes
// its destination; as there, Grow panics on a negative count.
func (s *RichSink) Grow(n int) {
	s.Upgrades++
	if n < 0 {
		panic("RichSink.Grow: negative count")
	}
}

func (s *RichSink) Len() int { return len(s.SimSink.Cur) }

func (s *RichSink) WriteByte(c byte) error {
	s.Upgrades++
	_, err := s.SimSink.Write([]byte{c})
	return err
}

func (s *RichSink) ReadFrom(r io.Reader) (int64, error) {
	s.Upgrades++
	var total int64
	buf := make([]byte, 512)
	for {
		n, err := r.Read(buf)
		if n > 0 {
			m, werr := s.SimSink.Write(buf[:n])
			total += int64(m)
			if werr != nil {
				return total, werr
			}
		}
		if err != nil {
			if err == io.EOF {
				return total, nil
			}
			return total, err
		}
	}
}
