//go:build !instr

package sim

import "time"

// Plain build: the library is /repo's tree as it is; only the seams are simulated.
const Instrumented = false

func setHook(h func(site int32))  {}
func setPerm(p func(n int) []int) {}
func siteName(i int32) string     { return "?" }
func nSites() int                 { return 0 }
func onLibraryGoroutine() bool    { return false }
func mapRangesRun() uint64        { return 0 }

type globalVar struct {
	Name string
	Ptr  interface{}
}

func globals() []globalVar { return nil }

func LibraryGoroutinePanics() int { return 0 }

func libraryGoroutineTicks() uint64 { return 0 }

func setClock(c func() time.Time)          {}
func setSleep(h func(d time.Duration))     {}
func setExit(h func(code int, msg string)) {}
