package sim

import (
	"fmt"
	"log"
	mrand "math/rand"
	"os"
	"reflect"
	"sort"
	"strings"
	"sync"
	"unsafe"
)

// GlobalsSnapshot hashes every package-level variable registered by P-globals.
// Deep: follows pointers, interfaces, slices, maps (sorted by key hash); func values are
// hashed by code pointer. Returns one hash per variable so a violation can name it.
type GlobalsSnapshot struct {
	Names  []string
	Hashes []uint64
}

func SnapshotGlobals(deep bool) *GlobalsSnapshot {
	gs := globals()
	snap := &GlobalsSnapshot{}
	for _, g := range gs {
		if strings.Contains(g.Name, "/zzsimrt.") {
			continue
		}
		v := reflect.ValueOf(g.Ptr).Elem()
		var h uint64
		if deep {
			deepBudget = 4 << 20
			h = deepHash(0, v, 0)
		} else {
			h = shallowHash(v)
		}
		snap.Names = append(snap.Names, g.Name)
		snap.Hashes = append(snap.Hashes, h)
	}
	// process-wide state of the standard library that a library could (but must not) touch
	snap.Names = append(snap.Names, "standard library log: default logger's output, flags, prefix")
	snap.Hashes = append(snap.Hashes, stdLogHash())
	snap.Names = append(snap.Names, "standard library math/rand: the process-wide source (seeded or drawn from)")
	snap.Hashes = append(snap.Hashes, stdRandEpoch())
	if stdoutFile != nil {
		var n int64
		if fi, err := stdoutFile.Stat(); err == nil {
			n = fi.Size()
		}
		snap.Names = append(snap.Names, "process standard output (os.Stdout): bytes written to it")
		snap.Hashes = append(snap.Hashes, uint64(n))
	}
	return snap
}

// WatchStdout points os.Stdout at an unlinked scratch file for the rest of the process, so
// that anything the library prints there (it has no business to) shows up as growth of that
// file in the globals snapshot. Worker and replay processes call it before their first run.
func WatchStdout() {
	if stdoutFile != nil {
		return
	}
	f, err := os.CreateTemp("", "simstdout")
	if err != nil {
		return
	}
	_ = os.Remove(f.Name())
	stdoutFile = f
	os.Stdout = f
}

var stdoutFile *os.File

// The process-wide math/rand source cannot be inspected, only drawn from. The harness never
// uses it for anything else: it seeds it once and keeps a private twin in step, one draw per
// snapshot. A draw that disagrees means someone else seeded the source or drew from it; the
// epoch then goes up (and both are re-seeded), which shows as a change of this "variable".
var (
	randMu     sync.Mutex
	randShadow *mrand.Rand
	randEpoch  uint64
)

func stdRandEpoch() uint64 {
	randMu.Lock()
	defer randMu.Unlock()
	if randShadow == nil {
		mrand.Seed(0x5eed5eed) //nolint:staticcheck // deliberate: the global source is the thing under watch
		randShadow = mrand.New(mrand.NewSource(0x5eed5eed))
	}
	if mrand.Uint64() != randShadow.Uint64() {
		randEpoch++
		mrand.Seed(0x5eed5eed + int64(randEpoch)) //nolint:staticcheck
		randShadow = mrand.New(mrand.NewSource(0x5eed5eed + int64(randEpoch)))
	}
	return randEpoch
}

func stdLogHash() uint64 {
	h := HashU64(0, uint64(log.Flags()))
	h = HashBytes(h, []byte(log.Prefix()))
	w := log.Writer()
	if w == nil {
		return HashU64(h, 0)
	}
	v := reflect.ValueOf(w)
	h = HashBytes(h, []byte(v.Type().String()))
	switch v.Kind() {
	case reflect.Ptr, reflect.Map, reflect.Chan, reflect.Func, reflect.UnsafePointer, reflect.Slice:
		h = HashU64(h, uint64(v.Pointer()))
	}
	return h
}

// Diff returns the names of variables whose hash differs.
func (a *GlobalsSnapshot) Diff(b *GlobalsSnapshot) []string {
	var out []string
	if len(a.Names) != len(b.Names) {
		return []string{fmt.Sprintf("set of globals changed: %d vs %d", len(a.Names), len(b.Names))}
	}
	for i := range a.Names {
		if a.Hashes[i] != b.Hashes[i] {
			out = append(out, a.Names[i])
		}
	}
	return out
}

func GlobalNames() []string {
	var out []string
	for _, g := range globals() {
		out = append(out, g.Name)
	}
	return out
}

// shallowHash hashes the raw bytes of the variable itself (fast path used at every
// context switch; pointers inside are hashed as addresses).
func shallowHash(v reflect.Value) uint64 {
	if !v.CanAddr() {
		return 0
	}
	sz := v.Type().Size()
	if sz == 0 {
		return 1
	}
	b := unsafe.Slice((*byte)(unsafe.Pointer(v.UnsafeAddr())), sz)
	return HashBytes(0, b)
}

// deepBudget bounds the work of one variable's deep hash (elements visited + bytes hashed): a
// package-level list that keeps whole emulator Systems alive (tens of MiB each) must not turn
// every snapshot into minutes. Beyond the budget only lengths and addresses are hashed, which
// still changes when such a structure grows or is re-pointed.
var deepBudget int

func deepHash(h uint64, v reflect.Value, depth int) uint64 {
	if depth > 12 {
		return HashU64(h, 0xdeadbeef)
	}
	if deepBudget <= 0 {
		switch v.Kind() {
		case reflect.Ptr, reflect.Map, reflect.Slice, reflect.Chan, reflect.Func, reflect.UnsafePointer:
			if v.IsNil() {
				return HashU64(h, 0)
			}
			if v.Kind() == reflect.Slice || v.Kind() == reflect.Map {
				h = HashU64(h, uint64(v.Len()))
			}
			return HashU64(h, uint64(v.Pointer()))
		case reflect.Array, reflect.Struct, reflect.Interface:
			return HashU64(h, 0xb0d9e7)
		}
	}
	deepBudget--
	switch v.Kind() {
	case reflect.Bool:
		if v.Bool() {
			return HashU64(h, 1)
		}
		return HashU64(h, 0)
	case reflect.Int, reflect.Int8, reflect.Int16, reflect.Int32, reflect.Int64:
		return HashU64(h, uint64(v.Int()))
	case reflect.Uint, reflect.Uint8, reflect.Uint16, reflect.Uint32, reflect.Uint64, reflect.Uintptr:
		return HashU64(h, v.Uint())
	case reflect.Float32, reflect.Float64:
		return HashBytes(h, []byte(fmt.Sprint(v.Float())))
	case reflect.String:
		return HashU64(HashBytes(h, []byte(v.String())), uint64(v.Len()))
	case reflect.Func:
		if v.IsNil() {
			return HashU64(h, 0)
		}
		return HashU64(h, uint64(v.Pointer()))
	case reflect.Ptr:
		if v.IsNil() {
			return HashU64(h, 0)
		}
		return deepHash(HashU64(h, 0xA1), v.Elem(), depth+1)
	case reflect.Interface:
		if v.IsNil() {
			return HashU64(h, 0)
		}
		h = HashBytes(h, []byte(v.Elem().Type().String()))
		return deepHash(h, v.Elem(), depth+1)
	case reflect.Array, reflect.Slice:
		n := v.Len()
		h = HashU64(h, uint64(n))
		if v.Type().Elem().Kind() == reflect.Uint8 && (v.Kind() == reflect.Slice || v.CanAddr()) {
			var b []byte
			if v.Kind() == reflect.Slice {
				b = v.Bytes()
			} else {
				b = unsafe.Slice((*byte)(unsafe.Pointer(v.UnsafeAddr())), n)
			}
			if len(b) > deepBudget {
				if deepBudget < 0 {
					deepBudget = 0
				}
				b = b[:deepBudget]
			}
			deepBudget -= len(b)
			return HashBytes(h, b)
		}
		for i := 0; i < n; i++ {
			h = deepHash(h, v.Index(i), depth+1)
		}
		return h
	case reflect.Struct:
		for i := 0; i < v.NumField(); i++ {
			h = deepHash(h, v.Field(i), depth+1)
		}
		return h
	case reflect.Map:
		if v.IsNil() {
			return HashU64(h, 0)
		}
		type kv struct{ k, v uint64 }
		var items []kv
		it := v.MapRange()
		for it.Next() {
			items = append(items, kv{deepHash(0, it.Key(), depth+1), deepHash(0, it.Value(), depth+1)})
		}
		sort.Slice(items, func(i, j int) bool {
			if items[i].k != items[j].k {
				return items[i].k < items[j].k
			}
			return items[i].v < items[j].v
		})
		h = HashU64(h, uint64(len(items)))
		for _, it := range items {
			h = HashU64(HashU64(h, it.k), it.v)
		}
		return h
	case reflect.Chan, reflect.UnsafePointer:
		return HashU64(h, uint64(v.Pointer()))
	}
	return h
}
