// Package sim is the simulator core shared by all checks: the single-seed choice source,
// scenarios as data, statistics, shrinking, replay files, the baton-passing scheduler.
package sim

// Rand is a splitmix64 generator. Every choice of a run derives from one of these, which
// in turn derives from VERIF_SEED, the property id and the run index (DESIGN §3.1).
type Rand struct{ s uint64 }

func Mix(x uint64) uint64 {
	x += 0x9E3779B97F4A7C15
	z := x
	z = (z ^ (z >> 30)) * 0xBF58476D1CE4E5B9
	z = (z ^ (z >> 27)) * 0x94D049BB133111EB
	return z ^ (z >> 31)
}

func HashString(s string) uint64 {
	h := uint64(0xcbf29ce484222325)
	for i := 0; i < len(s); i++ {
		h ^= uint64(s[i])
		h *= 0x100000001b3
	}
	return h
}

func HashBytes(h uint64, b []byte) uint64 {
	if h == 0 {
		h = 0xcbf29ce484222325
	}
	for _, c := range b {
		h ^= uint64(c)
		h *= 0x100000001b3
	}
	return h
}

func HashU64(h uint64, v uint64) uint64 {
	if h == 0 {
		h = 0xcbf29ce484222325
	}
	for i := 0; i < 8; i++ {
		h ^= v & 0xff
		h *= 0x100000001b3
		v >>= 8
	}
	return h
}

// SeedFor derives the seed of run r of property p under base seed s.
func SeedFor(base uint64, prop string, run uint64) uint64 {
	return Mix(Mix(base^0x5eed) ^ Mix(HashString(prop)) ^ Mix(run*0x9E3779B97F4A7C15+1))
}

func NewRand(seed uint64) *Rand { return &Rand{s: seed} }

// Fork derives an independent stream (gen / sched / task-local ...) by name.
func (r *Rand) Fork(name string) *Rand { return &Rand{s: Mix(r.s ^ HashString(name))} }

func ForkSeed(seed uint64, name string) *Rand { return &Rand{s: Mix(seed ^ HashString(name))} }

func (r *Rand) U64() uint64 {
	r.s += 0x9E3779B97F4A7C15
	z := r.s
	z = (z ^ (z >> 30)) * 0xBF58476D1CE4E5B9
	z = (z ^ (z >> 27)) * 0x94D049BB133111EB
	return z ^ (z >> 31)
}

// Intn returns a value in [0,n). n <= 0 yields 0.
func (r *Rand) Intn(n int) int {
	if n <= 1 {
		return 0
	}
	return int(r.U64() % uint64(n))
}

// Range returns a value in [lo,hi].
func (r *Rand) Range(lo, hi int) int {
	if hi <= lo {
		return lo
	}
	return lo + r.Intn(hi-lo+1)
}

// Chance is true with probability num/den.
func (r *Rand) Chance(num, den int) bool { return r.Intn(den) < num }

func (r *Rand) Float() float64 { return float64(r.U64()>>11) / float64(1<<53) }

func (r *Rand) Perm(n int) []int {
	p := make([]int, n)
	for i := range p {
		p[i] = i
	}
	for i := n - 1; i > 0; i-- {
		j := r.Intn(i + 1)
		p[i], p[j] = p[j], p[i]
	}
	return p
}

func (r *Rand) Bytes(n int) []byte {
	b := make([]byte, n)
	for i := 0; i < n; i += 8 {
		v := r.U64()
		for j := 0; j < 8 && i+j < n; j++ {
			b[i+j] = byte(v >> (8 * j))
		}
	}
	return b
}

func PickInt(r *Rand, xs ...int) int { return xs[r.Intn(len(xs))] }
func PickStr(r *Rand, xs ...string) string {
	return xs[r.Intn(len(xs))]
}
