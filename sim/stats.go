package sim

import (
	"sort"
)

// Stats is what one worker measured; workers' Stats are merged by the parent into the
// evidence file. Every number is counted when the thing happened, never configured.
type Stats struct {
	Evaluations  uint64            `json:"evaluations"`
	Nontrivial   map[uint64]bool   `json:"-"`
	NontrivialL  []uint64          `json:"nontrivial_hashes"`
	Faults       map[string]uint64 `json:"faults"`
	Probes       map[string]uint64 `json:"probes"`
	Aborted      map[string]uint64 `json:"aborted"`
	Schedules    map[uint64]bool   `json:"-"`
	SchedulesL   []uint64          `json:"schedule_hashes"`
	States       map[uint64]bool   `json:"-"`
	StatesL      []uint64          `json:"state_hashes"`
	SimCycles    uint64            `json:"sim_cycles"`
	SimOps       uint64            `json:"sim_ops"`
	Yields       uint64            `json:"yields"`
	Switches     uint64            `json:"switches"`
	SwitchBySite map[string]uint64 `json:"switch_by_site"`
	Samples      []interface{}     `json:"samples"`
	Known        map[string]uint64 `json:"known"`
	Notes        map[string]string `json:"notes"`

	// per-run scratch (reset by BeginRun)
	runNontrivial bool
}

func NewStats() *Stats {
	return &Stats{
		Nontrivial: map[uint64]bool{}, Faults: map[string]uint64{}, Probes: map[string]uint64{},
		Aborted: map[string]uint64{}, Schedules: map[uint64]bool{}, States: map[uint64]bool{},
		SwitchBySite: map[string]uint64{}, Known: map[string]uint64{}, Notes: map[string]string{},
	}
}

func (s *Stats) BeginRun()         { s.runNontrivial = false }
func (s *Stats) Fault(kind string) { s.Faults[kind]++; s.runNontrivial = true }
func (s *Stats) FaultN(k string, n int) {
	s.Faults[k] += uint64(n)
	s.runNontrivial = s.runNontrivial || n > 0
}
func (s *Stats) Probe(name string) { s.Probes[name]++ }
func (s *Stats) ProbeIf(c bool, name string) {
	if c {
		s.Probes[name]++
	}
}
func (s *Stats) MarkNontrivial()     { s.runNontrivial = true }
func (s *Stats) Abort(reason string) { s.Aborted[reason]++ }
func (s *Stats) State(h uint64)      { s.States[h] = true }
func (s *Stats) Schedule(h uint64)   { s.Schedules[h] = true }
func (s *Stats) EndRun(scHash uint64) {
	s.Evaluations++
	if s.runNontrivial {
		s.Nontrivial[scHash] = true
	}
}

func setToList(m map[uint64]bool) []uint64 {
	l := make([]uint64, 0, len(m))
	for k := range m {
		l = append(l, k)
	}
	sort.Slice(l, func(i, j int) bool { return l[i] < l[j] })
	return l
}

// Seal prepares the Stats for JSON transport.
func (s *Stats) Seal() {
	s.NontrivialL = setToList(s.Nontrivial)
	s.SchedulesL = setToList(s.Schedules)
	s.StatesL = setToList(s.States)
}

func (s *Stats) Merge(o *Stats) {
	s.Evaluations += o.Evaluations
	for _, h := range o.NontrivialL {
		s.Nontrivial[h] = true
	}
	for _, h := range o.SchedulesL {
		s.Schedules[h] = true
	}
	for _, h := range o.StatesL {
		s.States[h] = true
	}
	addMap(s.Faults, o.Faults)
	addMap(s.Probes, o.Probes)
	addMap(s.Aborted, o.Aborted)
	addMap(s.SwitchBySite, o.SwitchBySite)
	addMap(s.Known, o.Known)
	for k, v := range o.Notes {
		s.Notes[k] = v
	}
	s.SimCycles += o.SimCycles
	s.SimOps += o.SimOps
	s.Yields += o.Yields
	s.Switches += o.Switches
	for _, x := range o.Samples {
		if len(s.Samples) < 6 {
			s.Samples = append(s.Samples, x)
		}
	}
}

func addMap(dst, src map[string]uint64) {
	for k, v := range src {
		dst[k] += v
	}
}
