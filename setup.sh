#!/bin/bash
# Builds the framework from files on disk only (offline) and warms the Go build cache.
set -eu
export GOFLAGS=-mod=mod GOPROXY=off GOSUMDB=off GOTOOLCHAIN=local CGO_ENABLED=0
cd "$(dirname "$0")"
mkdir -p bin evidence replays
go build -o bin/instrument ./cmd/instrument
go vet ./sim ./worlds ./cmd/... >/dev/null 2>&1 || true
echo "setup ok"
