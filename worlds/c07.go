package worlds

import (
	"fmt"
	"github.com/alttpo/snes/emulator/memory"

	"github.com/alttpo/snes/asm"
	"github.com/alttpo/snes/emulator/cpu65c816"
	"github.com/alttpo/snes/emulator/cpualt"

	"verif/sim"
)

// C07 — emitter-accepted code is decoded by the CPU at the same instruction boundaries.
// Two parties that must agree without talking: the assembler's flag tracker and the two
// CPU interpreters. The simulator chooses the straight-line history (every immediate
// method attempted under every tracked width, REP/SEP/Assume* of arbitrary masks), the
// initial width assumption, and where an Assume* — an external width change — lands; it
// injects exactly that change into the CPU at that instruction boundary.
type c07 struct{}

func init() { sim.Register(c07{}) }

func (c07) ID() string     { return "C07" }
func (c07) Level() string  { return "exploration" }
func (c07) QuickRuns() int { return 40000 }
func (c07) Rule() string {
	return "each evaluation is one straight-line emitter history (1-40 calls from the non-control-transfer method catalogue incl. every immediate method under right and wrong tracked widths, REP/SEP/AssumeREP/AssumeSEP with arbitrary masks, labels, comments, optional base) whose accepted bytes are then executed on cpu65c816 (bus.Bus + SimMem) and cpualt (closures + SimMem), with each mid-program Assume* injected into the CPU as an external flag change at that boundary; distinct = distinct scenario hash; non-trivial = at least one immediate method was refused for width or an Assume* occurred after the first instruction"
}
func (c07) Assumptions() []string {
	return []string{
		"no branch, jump, return, PLP, RTI, STP (the property's quantifier: no taken control transfer, no flag restore from the stack); MVN may re-fetch its own opcode",
		"operands keep effective addresses below $800000 and memory fill bytes below $80 so that the unclaimed C08 defect (addresses beyond 24 bits index past the bus tables) cannot be reached; a run in which Step panics is discarded and counted (C08's business)",
		"the program sits in write-protected simulated memory, so no store can modify it",
	}
}
func (c07) Components() map[string][]string {
	return map[string][]string{"real": {"asm.Emitter + flagsTracker", "cpu65c816.CPU on bus.Bus", "cpualt.CPU with its Bus (instrumented copies)"}, "stub": {"SimMem (rom policy) behind the whole address space"}}
}

func (c07) Gen(r *sim.Rand, tier string, run uint64) *sim.Scenario {
	sc := &sim.Scenario{Cfg: map[string]int64{}}
	var ops []sim.Op
	flags := uint8(0)
	// initial width assumption: four combinations
	init := int64(sim.PickInt(r, 0x00, 0x10, 0x20, 0x30))
	if init != 0 {
		ops = append(ops, sim.Op{K: "asep", N: []int64{init}})
		flags |= uint8(init)
	}
	n := r.Range(1, 40)
	for len(ops) < n {
		switch x := r.Intn(100); {
		case x < 62:
			op := genIns(r, flags, r.Chance(1, 4), true)
			am := asmByName[op.S]
			// keep effective addresses well inside 24 bits
			for i := range op.N {
				if len(am.Kinds) > 0 && (am.Size == 4) {
					op.N[i] &= 0x7FFFFF
				}
			}
			if op.S == "MVN" {
				if !r.Chance(1, 6) {
					continue
				}
				op.N[0] &= 0x7F
				op.N[1] &= 0x7F
			}
			if op.S == "JSL_lhb" {
				continue
			}
			ops = append(ops, op)
		case x < 68:
			// a conditional branch right behind an instruction that fixes its condition to
			// "not taken", or a branch with displacement zero: control still goes to the next
			// instruction the assembler reported, whatever the displacement byte says
			ops = append(ops, genStraightBranch(r, flags)...)
		case x < 71:
			// a block of one-byte implied instructions emitted as data (EmitBytes)
			safe := []byte{0xEA, 0x18, 0x38, 0xB8, 0xE8, 0xC8, 0xCA, 0x88, 0x1A, 0x3A}
			b := make([]byte, sim.PickInt(r, 1, 2, 15, 16, 17, 32, 48, r.Range(1, 40)))
			for i := range b {
				b[i] = safe[r.Intn(len(safe))]
			}
			ops = append(ops, sim.Op{K: "data", B: b})
		case x < 85:
			f := genFlagOp(r)
			flags = applyFlagOp(flags, f)
			ops = append(ops, f)
		case x < 92:
			ops = append(ops, sim.Op{K: "label", N: []int64{int64(r.Intn(allLabelIdx))}})
		default:
			ops = append(ops, genComment(r))
		}
	}
	// place deferred labels: "deferlabel l k" becomes "label l" k ops further on
	{
		var out []sim.Op
		type pend struct {
			l    int64
			left int64
		}
		var pending []pend
		for _, op := range ops {
			if op.K == "deferlabel" {
				pending = append(pending, pend{op.Arg(0), op.Arg(1)})
				continue
			}
			out = append(out, op)
			keep := pending[:0]
			for _, p := range pending {
				p.left--
				if p.left <= 0 {
					out = append(out, sim.Op{K: "label", N: []int64{p.l}})
				} else {
					keep = append(keep, p)
				}
			}
			pending = keep
		}
		for _, p := range pending {
			out = append(out, sim.Op{K: "label", N: []int64{p.l}})
		}
		ops = out
	}
	var baseOp *sim.Op
	if set, base := genBase(r, 200); set {
		base &= 0x7FFFFF
		baseOp = &sim.Op{K: "setbase", N: []int64{int64(base)}}
	}
	// width assumptions may be announced before the base is set
	lead := 0
	if baseOp != nil && r.Chance(1, 3) {
		for lead < len(ops) && (ops[lead].K == "asep" || ops[lead].K == "arep") {
			lead++
		}
	}
	if r.Chance(1, 4) && len(ops) >= 2 {
		// part of the sequence is emitted through a Clone and appended back: still one
		// straight-line sequence of emitter calls the assembler accepts
		a := r.Intn(len(ops))
		if baseOp != nil && lead == 0 && r.Chance(1, 3) {
			a = 0
		}
		b := a + 1 + r.Intn(len(ops)-a)
		var out []sim.Op
		if baseOp != nil && a == 0 && lead == 0 {
			// the split lies before SetBase: the clone is given the base
			out = append(out, sim.Op{K: "clone"}, *baseOp)
			baseOp = nil
		} else {
			out = append(out, ops[:a]...)
			out = append(out, sim.Op{K: "clone"})
		}
		out = append(out, ops[a:b]...)
		out = append(out, sim.Op{K: "append"})
		out = append(out, ops[b:]...)
		ops = out
	}
	if baseOp != nil {
		ops = append(append(append([]sim.Op{}, ops[:lead]...), *baseOp), ops[lead:]...)
	}
	sc.Ops = ops
	sc.Cfg["a"] = int64(r.Intn(6)) // initial accumulator: bounds MVN's repeat count
	if r.Chance(1, 80) {
		sc.Cfg["initfrom"] = int64(r.Range(1, 2))
	}
	if r.Chance(1, 10) {
		sc.Cfg["cap"] = int64(r.Range(1, 40))
	}
	if r.Chance(1, 2) {
		sc.Cfg["gentext"] = 1
	}
	return sc
}

// genStraightBranch: [setter, branch] whose condition the setter makes false, or a branch
// with displacement zero. Exec re-derives admissibility from what was really accepted, so a
// shrunk or re-ordered history never relies on this generator's intent.
func genStraightBranch(r *sim.Rand, flags uint8) []sim.Op {
	disp := int64(int8(sim.PickInt(r, 0, 1, 2, 3, -1, -2, 5, 127, -128, r.Intn(256))))
	imm := func(name string) sim.Op { return sim.Op{K: "ins", S: name, N: []int64{disp}} }
	ref := func(name string) []sim.Op {
		l := int64(r.Intn(allLabelIdx))
		if r.Chance(1, 2) {
			// the label is defined a few calls further on (a forward branch that falls through
			// over code that may switch widths): Gen places it
			return []sim.Op{{K: "ref", S: name, N: []int64{l}}, {K: "deferlabel", N: []int64{l, int64(r.Range(1, 5))}}}
		}
		return []sim.Op{{K: "ref", S: name, N: []int64{l}}, {K: "label", N: []int64{l}}}
	}
	switch r.Intn(9) {
	case 7, 8:
		// load, compare with an immediate, branch on an outcome the two values rule out
		wide := flags&0x20 == 0
		v := int64(sim.PickInt(r, 0, 1, 0x7F, 0x80, 0xFF, r.Intn(256)))
		ld, cp := "LDA_imm8_b", "CMP_imm8_b"
		if wide {
			v = int64(sim.PickInt(r, 0, 1, 0x7FFF, 0x8000, 0xFFFF, 0x00FF, 0x0100, r.Intn(65536)))
			ld, cp = "LDA_imm16_w", "CMP_imm16_w"
		} else if flags&0x10 != 0 && r.Chance(1, 3) {
			ld, cp = "LDY_imm8_b", "CPY_imm8_b"
		}
		w := v
		switch r.Intn(3) {
		case 1:
			w = v + int64(sim.PickInt(r, 1, 1, 2, 0x80))
		case 2:
			w = v - int64(sim.PickInt(r, 1, 1, 2, 0x80))
		}
		max := int64(0xFF)
		if wide {
			max = 0xFFFF
		}
		if w < 0 || w > max {
			w = v
		}
		out := []sim.Op{{K: "ins", S: ld, N: []int64{v}}, {K: "ins", S: cp, N: []int64{w}}}
		if r.Chance(1, 3) {
			// branch on the sign of the difference (at the width of the compare)
			neg := (v-w)&0x80 != 0
			if wide {
				neg = (v-w)&0x8000 != 0
			}
			if neg {
				if r.Chance(1, 2) {
					return append(out, imm("BPL_imm8"))
				}
				return append(out, ref("BPL")...)
			}
			return append(out, ref("BMI")...)
		}
		switch {
		case v == w: // Z=1 C=1
			if r.Chance(1, 2) {
				return append(out, imm("BNE_imm8"))
			}
			return append(out, ref("BCC")...)
		case v > w: // Z=0 C=1
			if r.Chance(1, 2) {
				return append(out, imm("BEQ_imm8"))
			}
			return append(out, ref("BCC")...)
		default: // Z=0 C=0
			if r.Chance(1, 2) {
				return append(out, imm("BEQ_imm8"))
			}
			return append(out, ref("BCS")...)
		}
	case 0:
		return []sim.Op{{K: "ins", S: sim.PickStr(r, "BNE_imm8", "BEQ_imm8", "BPL_imm8", "BRA_imm8"), N: []int64{0}}}
	case 1:
		if r.Chance(1, 2) {
			return append([]sim.Op{{K: "ins", S: "CLC"}}, ref("BCS")...)
		}
		return append([]sim.Op{{K: "ins", S: "SEC"}}, ref("BCC")...)
	case 2:
		// REP/SEP of condition bits only (N, V, Z, C): the widths stay as they are
		mask := int64(sim.PickInt(r, 0x80, 0x02, 0x01, 0x83, 0xC3, 0x82))
		if r.Chance(1, 2) {
			// SEP: N=1 Z=1 C=1 -> BPL, BNE, BCC fall through
			out := []sim.Op{{K: "sep", N: []int64{mask}}}
			switch {
			case mask&0x80 != 0 && r.Chance(1, 2):
				return append(out, imm("BPL_imm8"))
			case mask&0x02 != 0 && r.Chance(1, 2):
				return append(out, imm("BNE_imm8"))
			case mask&0x01 != 0:
				return append(out, ref("BCC")...)
			case mask&0x80 != 0:
				return append(out, ref("BPL")...)
			}
			return append(out, imm("BNE_imm8"))
		}
		out := []sim.Op{{K: "rep", N: []int64{mask}}}
		switch {
		case mask&0x80 != 0 && r.Chance(1, 2):
			return append(out, ref("BMI")...)
		case mask&0x02 != 0 && r.Chance(1, 2):
			return append(out, imm("BEQ_imm8"))
		case mask&0x01 != 0:
			return append(out, ref("BCS")...)
		case mask&0x80 != 0:
			return append(out, ref("BMI")...)
		}
		return append(out, imm("BEQ_imm8"))
	}
	// a load immediate of the tracked width, then the branch its value rules out
	reg := sim.PickStr(r, "LDA", "LDA", "LDX", "LDY")
	wide := flags&0x20 == 0
	if reg != "LDA" {
		wide = flags&0x10 == 0
	}
	var v int64
	var name string
	neg, zero := false, false
	if wide {
		v = int64(sim.PickInt(r, 0, 1, 0x7FFF, 0x8000, 0xFFFF, 0x0080, 0x00FF, 0x0100, r.Intn(65536)))
		name = reg + "_imm16_w"
		neg, zero = v&0x8000 != 0, v == 0
	} else {
		v = int64(sim.PickInt(r, 0, 1, 0x7F, 0x80, 0xFF, r.Intn(256)))
		name = reg + "_imm8_b"
		neg, zero = v&0x80 != 0, v == 0
	}
	out := []sim.Op{{K: "ins", S: name, N: []int64{v}}}
	switch r.Intn(4) {
	case 0:
		if neg {
			return append(out, imm("BPL_imm8"))
		}
		return append(out, ref("BMI")...)
	case 1:
		if neg {
			return append(out, ref("BPL")...)
		}
		return append(out, ref("BMI")...)
	case 2:
		if zero {
			return append(out, imm("BNE_imm8"))
		}
		return append(out, imm("BEQ_imm8"))
	}
	if zero {
		return append(out, ref("BNE")...)
	}
	return append(out, ref("BEQ")...)
}

// c07known is what the harness knows about the CPU's condition flags at an instruction
// boundary: bit set in Mask = the flag's value is fixed to the bit in Val (N $80, Z $02, C $01).
type c07known struct {
	Mask, Val byte
	// register values fixed by an immediate load that is still in force (A, Y)
	A, Y c07reg
}

type c07reg struct {
	ok   bool
	v    uint16
	wide bool
}

// compare: the flags CMP/CPY #m leave for a known register value
func (k *c07known) compare(r c07reg, m uint16, wide bool) {
	if !r.ok || r.wide != wide {
		k.Mask &^= 0x83
		return
	}
	var val byte
	if r.v >= m {
		val |= 0x01
	}
	if r.v == m {
		val |= 0x02
	}
	d := r.v - m
	if (wide && d&0x8000 != 0) || (!wide && d&0x80 != 0) {
		val |= 0x80
	}
	k.set(0x83, val)
}

func (k *c07known) set(bits, val byte) { k.Mask |= bits; k.Val = k.Val&^bits | val&bits }

// notTaken: is the branch certain to fall through?
func (k c07known) notTaken(method string) bool {
	name := method
	if i := len(name) - len("_imm8"); i > 0 && name[i:] == "_imm8" {
		name = name[:i]
	}
	var bit, takenWhen byte
	switch name {
	case "BNE":
		bit, takenWhen = 0x02, 0
	case "BEQ":
		bit, takenWhen = 0x02, 0x02
	case "BPL":
		bit, takenWhen = 0x80, 0
	case "BMI":
		bit, takenWhen = 0x80, 0x80
	case "BCC":
		bit, takenWhen = 0x01, 0
	case "BCS":
		bit, takenWhen = 0x01, 0x01
	default:
		return false
	}
	return k.Mask&bit != 0 && k.Val&bit != takenWhen
}

type c07ev struct {
	kind string // "ins" | "assume"
	pc   uint32
	op   sim.Op
}

func (c07) Exec(sc *sim.Scenario, env *sim.Env) *sim.Violation {
	sim.Activate(env)
	defer sim.Deactivate()
	st := env.Stats
	env.SetWatchdog(40000000)
	capacity := 256
	if c := int(sc.C("cap")); c > 0 && c < 256 {
		capacity = c // a short window into a larger array: the program stops where it no longer fits
	}
	tgt, _ := mkTarget(capacity, sc.C("cap") > 0)
	gentext := sc.C("gentext") != 0
	orig := asm.NewEmitter(tgt, gentext)
	e := orig
	m := newAsmModel(true, capacity, gentext)
	var known c07known // condition flags fixed by the instructions accepted so far
	usedRefs := false
	var evs []c07ev
	var flagsOverride *uint8
	seenIns := false
	widthRefusal, lateAssume := false, false
	for i, op := range sc.Ops {
		switch op.K {
		case "clone":
			if e == orig && sc.C("cap") > 0 {
				continue // with a short target the block-through-Clone dimension is left to C19/C16
			}
			if e == orig {
				var c *asm.Emitter
				if p, pv := sim.RecoverLib(func() { c = orig.Clone(make([]byte, 256)) }); p || c == nil {
					return &sim.Violation{Oracle: "clone_panic", Step: i, Msg: sim.PanicString(pv)}
				}
				e = c
				st.Probe("segment_through_clone")
				// a speculative sibling clone that switches widths and is then discarded must not
				// reach the emitters in use
				var sib *asm.Emitter
				sim.RecoverLib(func() { sib = orig.Clone(make([]byte, 16)) })
				if sib != nil {
					sim.RecoverLib(func() {
						if sib.IsM16bit() {
							sib.SEP(0x30)
						} else {
							sib.REP(0x30)
						}
					})
				}
			}
			continue
		case "append":
			if e != orig {
				if p, pv := sim.RecoverLib(func() { orig.Append(e) }); p {
					return &sim.Violation{Oracle: "append_panic", Step: i, Msg: sim.PanicString(pv)}
				}
				e = orig
			}
			continue
		case "ins":
			am := asmByName[op.S]
			if am == nil || am.IsRef {
				continue
			}
			if am.Ctrl {
				// a relative branch stays inside a straight-line sequence when it leads to the
				// next instruction (displacement 0) or when its condition is known to be false
				isBranch := len(op.S) > 5 && op.S[0] == 'B' && op.S[len(op.S)-5:] == "_imm8"
				if !isBranch || !(int8(op.Arg(0)) == 0 || known.notTaken(op.S)) {
					continue // outside the property's quantifier
				}
				st.Probe("branch_in_straight_line")
			}
		case "ref":
			am := asmByName[op.S]
			if am == nil || !am.IsRef || !am.RefS8 || !known.notTaken(op.S) {
				continue
			}
			st.Probe("branch_in_straight_line")
		case "data":
			if !c07safeData(op.B) {
				continue
			}
		case "rep", "sep", "arep", "asep", "label", "comment":
		case "setbase":
			if seenIns || e.Len() > 0 {
				continue
			}
		default:
			continue
		}
		st.SimOps++
		before := snapEmitter(e)
		out := m.step(op)
		pcBefore := e.PC()
		panicked, msg := asmApply(e, op)
		after := snapEmitter(e)
		env.ObsBool(panicked)
		obsSnap(env, after)
		if v := accessorViolation(after, i, op); v != nil {
			return v
		}
		if out.Refused == "cap" && e != orig {
			// the program has outgrown the 256-byte target while a block of it is being emitted
			// into a clone (which has a buffer of its own and accepts): whether and when that is
			// refused is C16's and C19's subject, and the program is not one the target holds
			st.Abort("program_exceeds_target_inside_clone")
			return nil
		}
		if out.Refused == "cap" {
			if op.K == "rep" || op.K == "sep" {
				// a REP/SEP refused for capacity has already updated the tracker (known quirk, not
				// this property's subject): the widths to expect are those before it
				f := out.FlagsBefore
				flagsOverride = &f
			}
			// target exhausted: stop the program here (not part of this property)
			if !panicked {
				return &sim.Violation{Oracle: "refusal_mismatch", Step: i, Msg: fmt.Sprintf("%s does not fit into the %d-byte target (Len=%d) but was accepted", op, capacity, before.Len)}
			}
			break
		}
		if panicked != (out.Refused != "") {
			am := asmByName[op.S]
			return &sim.Violation{Oracle: "width_guard", Step: i,
				Msg: fmt.Sprintf("%s under tracked flags %#02x: operand is %d-bit for register class %q, so refusal expected=%v, but library panicked=%v (%s)", op, out.FlagsBefore, map[bool]int{true: 16, false: 8}[am != nil && am.Want16], guardName(am), out.Refused != "", panicked, msg)}
		}
		if panicked {
			if d := before.diff(after, true); d != "" {
				return &sim.Violation{Oracle: "refusal_changed_state", Step: i, Msg: fmt.Sprintf("%s was refused but changed state: %s", op, d)}
			}
			am := asmByName[op.S]
			if am != nil {
				st.Probe("refused:" + am.Name)
			}
			st.Fault("width_refusal")
			widthRefusal = true
			env.FaultYield("op")
			continue
		}
		// what the accepted call fixes about N, Z and C (anything else: unknown afterwards)
		switch op.K {
		case "label", "comment", "setbase":
		case "rep", "sep":
			if op.K == "rep" {
				known.set(byte(op.Arg(0))&0x83, 0)
			} else {
				known.set(byte(op.Arg(0))&0x83, 0xFF)
			}
			if op.Arg(0)&0x20 != 0 {
				known.A.ok = false // the accumulator changes width
			}
			if op.Arg(0)&0x10 != 0 {
				known.Y.ok = false
			}
		case "ref":
			usedRefs = true // a branch that falls through changes no flag
		case "ins":
			v := op.Arg(0)
			switch op.S {
			case "LDA_imm8_b", "LDX_imm8_b", "LDY_imm8_b":
				known.set(0x82, map[bool]byte{true: 0x80}[v&0x80 != 0]|map[bool]byte{true: 0x02}[v&0xFF == 0])
				switch op.S[:3] {
				case "LDA":
					known.A = c07reg{true, uint16(v & 0xFF), false}
				case "LDY":
					known.Y = c07reg{true, uint16(v & 0xFF), false}
				}
			case "LDA_imm16_w", "LDX_imm16_w", "LDY_imm16_w":
				known.set(0x82, map[bool]byte{true: 0x80}[v&0x8000 != 0]|map[bool]byte{true: 0x02}[v&0xFFFF == 0])
				switch op.S[:3] {
				case "LDA":
					known.A = c07reg{true, uint16(v), true}
				case "LDY":
					known.Y = c07reg{true, uint16(v), true}
				}
			case "CMP_imm8_b":
				known.compare(known.A, uint16(v&0xFF), false)
			case "CMP_imm16_w":
				known.compare(known.A, uint16(v), true)
			case "CPY_imm8_b":
				known.compare(known.Y, uint16(v&0xFF), false)
			case "CLC":
				known.set(0x01, 0)
			case "SEC":
				known.set(0x01, 0x01)
			case "NOP", "BNE_imm8", "BEQ_imm8", "BPL_imm8", "BRA_imm8":
			default:
				known = c07known{}
			}
		default:
			known = c07known{}
		}
		switch op.K {
		case "data":
			for j := range op.B {
				evs = append(evs, c07ev{kind: "ins", pc: pcBefore + uint32(j), op: sim.Op{K: "ins", S: fmt.Sprintf("data byte %02x", op.B[j])}})
			}
			seenIns = true
			st.Probe("data_block_as_code")
		case "ins", "rep", "sep", "ref":
			evs = append(evs, c07ev{kind: "ins", pc: pcBefore, op: op})
			seenIns = true
			if op.K == "ins" {
				if am := asmByName[op.S]; am != nil && am.Guard != 0 {
					st.Probe("accepted:" + am.Name)
				}
			} else {
				switch op.Arg(0) & 0x30 {
				case 0x10, 0x20, 0x30:
					st.Probe(fmt.Sprintf("rep_sep_mask_%02x", op.Arg(0)&0x30))
				default:
					st.Probe("rep_sep_mask_other")
				}
			}
		case "arep", "asep":
			evs = append(evs, c07ev{kind: "assume", pc: pcBefore, op: op})
			if seenIns {
				st.Probe("assume_midprogram")
				lateAssume = true
			}
		}
	}
	if widthRefusal || lateAssume {
		st.MarkNontrivial()
	}
	if e != orig {
		if p, pv := sim.RecoverLib(func() { orig.Append(e) }); p {
			return &sim.Violation{Oracle: "append_panic", Step: len(sc.Ops), Msg: sim.PanicString(pv)}
		}
		e = orig
	}
	if usedRefs {
		var ferr error
		if p, _ := sim.RecoverLib(func() { ferr = e.Finalize() }); p || ferr != nil {
			st.Abort("finalize_failed") // an unresolved or too distant label: C06's business
			return nil
		}
	}
	prog := append([]byte{}, e.Bytes()...)
	base := e.GetBase()
	endPC := e.PC()
	if len(prog) == 0 {
		return nil
	}
	if (base&0xFFFF)+uint32(len(prog)) > 0x10000 {
		return nil // must stay in one bank (generator keeps room; shrinking may not)
	}
	wantM, wantX := byte(1), byte(1)
	if e.IsM16bit() {
		wantM = 0
	}
	if e.IsX16bit() {
		wantX = 0
	}
	if flagsOverride != nil {
		wantM, wantX = (*flagsOverride>>5)&1, (*flagsOverride>>4)&1
	}
	st.Probe(fmt.Sprintf("end_M%d_X%d", wantM, wantX))

	for kind := 0; kind < 2; kind++ {
		mem := NewSimMem(env, 0, sim.Mix(sc.Seed^0xC07))
		mem.ROM = true
		mem.Mask = 0x80
		mem.NoLog = true
		for j, b := range prog {
			mem.Poke(base+uint32(j), b)
		}
		var mc *Machine
		if kind == 0 {
			mc = NewBusMachine(env, 0, mem)
		} else {
			mc = NewAltMachine(env, 0, mem, 0, 0)
		}
		if sc.C("initfrom") != 0 {
			// the program runs on a CPU made with InitFrom (a copy of another instance)
			if kind == 0 {
				cp := &cpu65c816.CPU{}
				cp.InitFrom(mc.CPU.(cpuA).c, mc.busA)
				mc = &Machine{CPU: cpuA{cp}, Mem: mem, busA: mc.busA}
			} else {
				cp := &cpualt.CPU{}
				if sc.C("initfrom") == 2 {
					cp.Init() // the receiver is a CPU that has been in use before (pooled working copy)
				}
				cp.InitFrom(mc.altB)
				// the copy is a CPU of its own: what the original's bus is given afterwards (here:
				// a device that answers STP everywhere) is none of the copy's business
				if mc.altPool != nil {
					mc.altPool.split = true // the pooled original is re-attached before its next use
				}
				mc.altB.Bus.AttachReader(0, 0xFFFFFF, func(uint32) uint8 { return 0xDB })
				mc = &Machine{CPU: cpuB{cp}, Mem: mem, altB: cp}
			}
			st.Probe("cpu_made_with_InitFrom")
		}
		cpu := mc.CPU
		if kind == 0 && sim.Mix(sc.Seed^0x40B)%5 == 0 && sc.C("initfrom") == 0 {
			// the machine is built first and the program assembled into its ROM afterwards:
			// a memory.ROM device over the program's 16-byte blocks, made from a buffer that
			// holds STP where the program will be; the program arrives after the Attach
			lo, hi := base&^0xF, (base+uint32(len(prog))-1)|0xF
			backing := make([]byte, hi-lo+1)
			for j := range backing {
				backing[j] = mem.Peek(lo + uint32(j))
			}
			for j := range prog {
				backing[base-lo+uint32(j)] = 0xDB
			}
			if err := mc.AttachOver(memory.NewROM(backing, lo), "program", lo, hi); err != nil {
				panic("harness: " + err.Error())
			}
			copy(backing[base-lo:], prog)
			st.Probe("assembled_into_attached_rom")
		}
		a := uint16(sc.C("a")) & 7
		start := Regs{PC: uint16(base), RK: byte(base >> 16), SP: 0x01FF, RA: a, RAl: byte(a)}
		if sim.Mix(sc.Seed^0x9E1)%6 == 0 && prog[0] != 0xEA {
			// the CPU has been in use: a one-instruction program (NOP) ran at the same address
			// before this one was loaded. The caller then sets the registers it knows about,
			// not the CPU's "previous PC" debugging fields
			for j := range prog {
				mem.Poke(base+uint32(j), 0xDB)
			}
			mem.Poke(base, 0xEA)
			cpu.SetRegs(start)
			if p, _ := sim.RecoverLib(func() { cpu.Step() }); !p {
				was := cpu.Regs()
				start.PPC, start.PRK = was.PPC, was.PRK
				st.Probe("cpu_reused_after_one_instruction_program")
			}
			for j, b := range prog {
				mem.Poke(base+uint32(j), b)
			}
		}
		cpu.SetRegs(start)
		// widths the assembler was told to assume before the first instruction are applied
		// by the assume events at index 0 below (the tracker starts at 16-bit/16-bit)
		ei := 0
		steps := 0
		for ei < len(evs) {
			ev := evs[ei]
			if ev.kind == "assume" {
				p := cpu.FlagsP()
				if ev.op.K == "asep" {
					p |= byte(ev.op.Arg(0)) & 0x30
				} else {
					p &^= byte(ev.op.Arg(0)) & 0x30
				}
				cpu.SetFlagsP(p)
				ei++
				continue
			}
			r := cpu.Regs()
			if r.PCL() != ev.pc {
				return &sim.Violation{Oracle: "fetch_boundary", Step: ei,
					Msg: fmt.Sprintf("%s: about to fetch at %06x, but the assembler reported instruction %d (%s) at %06x (M=%d X=%d)", cpu.Kind(), r.PCL(), ei, ev.op, ev.pc, r.M, r.X)}
			}
			isMVN := ev.op.S == "MVN"
			for {
				var cyc int
				p, pv := sim.RecoverLib(func() { cyc, _ = cpu.Step() })
				steps++
				st.SimCycles += uint64(cyc)
				if p {
					_ = pv // a crashing Step is C08's business
					st.Abort("step_panic")
					goto nextCPU
				}
				if !isMVN || cpu.Regs().PCL() != ev.pc || steps > 300000 {
					break
				}
			}
			ei++
		}
		{
			r := cpu.Regs()
			env.ObsU64(r.Hash())
			if r.PCL() != endPC {
				return &sim.Violation{Oracle: "fetch_boundary", Step: len(evs),
					Msg: fmt.Sprintf("%s: after the last instruction PC=%06x, the assembler's PC()=%06x", cpu.Kind(), r.PCL(), endPC)}
			}
			if r.M != wantM || r.X != wantX {
				return &sim.Violation{Oracle: "final_widths", Step: len(evs),
					Msg: fmt.Sprintf("%s: after the last instruction CPU M=%d X=%d, assembler tracks M=%d X=%d", cpu.Kind(), r.M, r.X, wantM, wantX)}
			}
			st.Probe("executed_on_" + cpu.Kind())
		}
	nextCPU:
		continue
	}
	st.State(sim.HashU64(sim.HashBytes(0, prog), uint64(wantM)<<1|uint64(wantX)))
	return nil
}

func c07safeData(b []byte) bool {
	for _, x := range b {
		switch x {
		case 0xEA, 0x18, 0x38, 0xB8, 0xE8, 0xC8, 0xCA, 0x88, 0x1A, 0x3A:
		default:
			return false
		}
	}
	return len(b) > 0
}

func guardName(am *asmMethod) string {
	if am == nil || am.Guard == 0 {
		return "none"
	}
	return string(am.Guard)
}
