package worlds

import (
	"fmt"

	"github.com/alttpo/snes/asm"
	"github.com/alttpo/snes/emulator/cpu65c816"
	"github.com/alttpo/snes/emulator/cpualt"

	"verif/sim"
)

// C07 — emitter-accepted code is decoded by the CPU at the same instruction boundaries.
// Two parties that must agree without talking: the assembler's flag tracker and the two
// CPU interpreters. The simulator chooses the straight-line history (every immediate
// method attempted under every tracked width, REP/SEP/Assume* of arbitrary masks), the
// initial width assumption, and where an Assume* — an external width change — lands; it
// injects exactly that change into the CPU at that instruction boundary.
type c07 struct{}

func init() { sim.Register(c07{}) }

func (c07) ID() string     { return "C07" }
func (c07) Level() string  { return "exploration" }
func (c07) QuickRuns() int { return 40000 }
func (c07) Rule() string {
	return "each evaluation is one straight-line emitter history (1-40 calls from the non-control-transfer method catalogue incl. every immediate method under right and wrong tracked widths, REP/SEP/AssumeREP/AssumeSEP with arbitrary masks, labels, comments, optional base) whose accepted bytes are then executed on cpu65c816 (bus.Bus + SimMem) and cpualt (closures + SimMem), with each mid-program Assume* injected into the CPU as an external flag change at that boundary; distinct = distinct scenario hash; non-trivial = at least one immediate method was refused for width or an Assume* occurred after the first instruction"
}
func (c07) Assumptions() []string {
	return []string{
		"no branch, jump, return, PLP, RTI, STP (the property's quantifier: no taken control transfer, no flag restore from the stack); MVN may re-fetch its own opcode",
		"operands keep effective addresses below $800000 and memory fill bytes below $80 so that the unclaimed C08 defect (addresses beyond 24 bits index past the bus tables) cannot be reached; a run in which Step panics is discarded and counted (C08's business)",
		"the program sits in write-protected simulated memory, so no store can modify it",
	}
}
func (c07) Components() map[string][]string {
	return map[string][]string{"real": {"asm.Emitter + flagsTracker", "cpu65c816.CPU on bus.Bus", "cpualt.CPU with its Bus (instrumented copies)"}, "stub": {"SimMem (rom policy) behind the whole address space"}}
}

func (c07) Gen(r *sim.Rand, tier string, run uint64) *sim.Scenario {
	sc := &sim.Scenario{Cfg: map[string]int64{}}
	var ops []sim.Op
	flags := uint8(0)
	// initial width assumption: four combinations
	init := int64(sim.PickInt(r, 0x00, 0x10, 0x20, 0x30))
	if init != 0 {
		ops = append(ops, sim.Op{K: "asep", N: []int64{init}})
		flags |= uint8(init)
	}
	n := r.Range(1, 40)
	for len(ops) < n {
		switch x := r.Intn(100); {
		case x < 62:
			op := genIns(r, flags, r.Chance(1, 4), true)
			am := asmByName[op.S]
			// keep effective addresses well inside 24 bits
			for i := range op.N {
				if len(am.Kinds) > 0 && (am.Size == 4) {
					op.N[i] &= 0x7FFFFF
				}
			}
			if op.S == "MVN" {
				if !r.Chance(1, 6) {
					continue
				}
				op.N[0] &= 0x7F
				op.N[1] &= 0x7F
			}
			if op.S == "JSL_lhb" {
				continue
			}
			ops = append(ops, op)
		case x < 85:
			f := genFlagOp(r)
			flags = applyFlagOp(flags, f)
			ops = append(ops, f)
		case x < 92:
			ops = append(ops, sim.Op{K: "label", N: []int64{int64(r.Intn(allLabelIdx))}})
		default:
			ops = append(ops, genComment(r))
		}
	}
	var baseOp *sim.Op
	if set, base := genBase(r, 200); set {
		base &= 0x7FFFFF
		baseOp = &sim.Op{K: "setbase", N: []int64{int64(base)}}
	}
	// width assumptions may be announced before the base is set
	lead := 0
	if baseOp != nil && r.Chance(1, 3) {
		for lead < len(ops) && (ops[lead].K == "asep" || ops[lead].K == "arep") {
			lead++
		}
	}
	if r.Chance(1, 4) && len(ops) >= 2 {
		// part of the sequence is emitted through a Clone and appended back: still one
		// straight-line sequence of emitter calls the assembler accepts
		a := r.Intn(len(ops))
		if baseOp != nil && lead == 0 && r.Chance(1, 3) {
			a = 0
		}
		b := a + 1 + r.Intn(len(ops)-a)
		var out []sim.Op
		if baseOp != nil && a == 0 && lead == 0 {
			// the split lies before SetBase: the clone is given the base
			out = append(out, sim.Op{K: "clone"}, *baseOp)
			baseOp = nil
		} else {
			out = append(out, ops[:a]...)
			out = append(out, sim.Op{K: "clone"})
		}
		out = append(out, ops[a:b]...)
		out = append(out, sim.Op{K: "append"})
		out = append(out, ops[b:]...)
		ops = out
	}
	if baseOp != nil {
		ops = append(append(append([]sim.Op{}, ops[:lead]...), *baseOp), ops[lead:]...)
	}
	sc.Ops = ops
	sc.Cfg["a"] = int64(r.Intn(6)) // initial accumulator: bounds MVN's repeat count
	if r.Chance(1, 80) {
		sc.Cfg["initfrom"] = int64(r.Range(1, 2))
	}
	if r.Chance(1, 10) {
		sc.Cfg["cap"] = int64(r.Range(1, 40))
	}
	return sc
}

type c07ev struct {
	kind string // "ins" | "assume"
	pc   uint32
	op   sim.Op
}

func (c07) Exec(sc *sim.Scenario, env *sim.Env) *sim.Violation {
	sim.Activate(env)
	defer sim.Deactivate()
	st := env.Stats
	env.SetWatchdog(40000000)
	capacity := 256
	if c := int(sc.C("cap")); c > 0 && c < 256 {
		capacity = c // a short window into a larger array: the program stops where it no longer fits
	}
	tgt, _ := mkTarget(capacity, sc.C("cap") > 0)
	orig := asm.NewEmitter(tgt, false)
	e := orig
	m := newAsmModel(true, capacity, false)
	var evs []c07ev
	var flagsOverride *uint8
	seenIns := false
	widthRefusal, lateAssume := false, false
	for i, op := range sc.Ops {
		switch op.K {
		case "clone":
			if e == orig && sc.C("cap") > 0 {
				continue // with a short target the block-through-Clone dimension is left to C19/C16
			}
			if e == orig {
				var c *asm.Emitter
				if p, pv := sim.RecoverLib(func() { c = orig.Clone(make([]byte, 256)) }); p || c == nil {
					return &sim.Violation{Oracle: "clone_panic", Step: i, Msg: sim.PanicString(pv)}
				}
				e = c
				st.Probe("segment_through_clone")
				// a speculative sibling clone that switches widths and is then discarded must not
				// reach the emitters in use
				var sib *asm.Emitter
				sim.RecoverLib(func() { sib = orig.Clone(make([]byte, 16)) })
				if sib != nil {
					sim.RecoverLib(func() {
						if sib.IsM16bit() {
							sib.SEP(0x30)
						} else {
							sib.REP(0x30)
						}
					})
				}
			}
			continue
		case "append":
			if e != orig {
				if p, pv := sim.RecoverLib(func() { orig.Append(e) }); p {
					return &sim.Violation{Oracle: "append_panic", Step: i, Msg: sim.PanicString(pv)}
				}
				e = orig
			}
			continue
		case "ins":
			am := asmByName[op.S]
			if am == nil || am.Ctrl || am.IsRef {
				continue // outside the property's quantifier
			}
		case "rep", "sep", "arep", "asep", "label", "comment":
		case "setbase":
			if seenIns || e.Len() > 0 {
				continue
			}
		default:
			continue
		}
		st.SimOps++
		before := snapEmitter(e)
		out := m.step(op)
		pcBefore := e.PC()
		panicked, msg := asmApply(e, op)
		after := snapEmitter(e)
		env.ObsBool(panicked)
		obsSnap(env, after)
		if v := accessorViolation(after, i, op); v != nil {
			return v
		}
		if out.Refused == "cap" {
			if op.K == "rep" || op.K == "sep" {
				// a REP/SEP refused for capacity has already updated the tracker (known quirk, not
				// this property's subject): the widths to expect are those before it
				f := out.FlagsBefore
				flagsOverride = &f
			}
			// target exhausted: stop the program here (not part of this property)
			if !panicked {
				return &sim.Violation{Oracle: "refusal_mismatch", Step: i, Msg: fmt.Sprintf("%s does not fit into the %d-byte target (Len=%d) but was accepted", op, capacity, before.Len)}
			}
			break
		}
		if panicked != (out.Refused != "") {
			am := asmByName[op.S]
			return &sim.Violation{Oracle: "width_guard", Step: i,
				Msg: fmt.Sprintf("%s under tracked flags %#02x: operand is %d-bit for register class %q, so refusal expected=%v, but library panicked=%v (%s)", op, out.FlagsBefore, map[bool]int{true: 16, false: 8}[am != nil && am.Want16], guardName(am), out.Refused != "", panicked, msg)}
		}
		if panicked {
			if d := before.diff(after, true); d != "" {
				return &sim.Violation{Oracle: "refusal_changed_state", Step: i, Msg: fmt.Sprintf("%s was refused but changed state: %s", op, d)}
			}
			am := asmByName[op.S]
			if am != nil {
				st.Probe("refused:" + am.Name)
			}
			st.Fault("width_refusal")
			widthRefusal = true
			env.FaultYield("op")
			continue
		}
		switch op.K {
		case "ins", "rep", "sep":
			evs = append(evs, c07ev{kind: "ins", pc: pcBefore, op: op})
			seenIns = true
			if op.K == "ins" {
				if am := asmByName[op.S]; am != nil && am.Guard != 0 {
					st.Probe("accepted:" + am.Name)
				}
			} else {
				switch op.Arg(0) & 0x30 {
				case 0x10, 0x20, 0x30:
					st.Probe(fmt.Sprintf("rep_sep_mask_%02x", op.Arg(0)&0x30))
				default:
					st.Probe("rep_sep_mask_other")
				}
			}
		case "arep", "asep":
			evs = append(evs, c07ev{kind: "assume", pc: pcBefore, op: op})
			if seenIns {
				st.Probe("assume_midprogram")
				lateAssume = true
			}
		}
	}
	if widthRefusal || lateAssume {
		st.MarkNontrivial()
	}
	if e != orig {
		if p, pv := sim.RecoverLib(func() { orig.Append(e) }); p {
			return &sim.Violation{Oracle: "append_panic", Step: len(sc.Ops), Msg: sim.PanicString(pv)}
		}
		e = orig
	}
	prog := append([]byte{}, e.Bytes()...)
	base := e.GetBase()
	endPC := e.PC()
	if len(prog) == 0 {
		return nil
	}
	if (base&0xFFFF)+uint32(len(prog)) > 0x10000 {
		return nil // must stay in one bank (generator keeps room; shrinking may not)
	}
	wantM, wantX := byte(1), byte(1)
	if e.IsM16bit() {
		wantM = 0
	}
	if e.IsX16bit() {
		wantX = 0
	}
	if flagsOverride != nil {
		wantM, wantX = (*flagsOverride>>5)&1, (*flagsOverride>>4)&1
	}
	st.Probe(fmt.Sprintf("end_M%d_X%d", wantM, wantX))

	for kind := 0; kind < 2; kind++ {
		mem := NewSimMem(env, 0, sim.Mix(sc.Seed^0xC07))
		mem.ROM = true
		mem.Mask = 0x80
		mem.NoLog = true
		for j, b := range prog {
			mem.Poke(base+uint32(j), b)
		}
		var mc *Machine
		if kind == 0 {
			mc = NewBusMachine(env, 0, mem)
		} else {
			mc = NewAltMachine(env, 0, mem, 0, 0)
		}
		if sc.C("initfrom") != 0 {
			// the program runs on a CPU made with InitFrom (a copy of another instance)
			if kind == 0 {
				cp := &cpu65c816.CPU{}
				cp.InitFrom(mc.CPU.(cpuA).c, mc.busA)
				mc = &Machine{CPU: cpuA{cp}, Mem: mem, busA: mc.busA}
			} else {
				cp := &cpualt.CPU{}
				if sc.C("initfrom") == 2 {
					cp.Init() // the receiver is a CPU that has been in use before (pooled working copy)
				}
				cp.InitFrom(mc.altB)
				mc = &Machine{CPU: cpuB{cp}, Mem: mem, altB: cp}
			}
			st.Probe("cpu_made_with_InitFrom")
		}
		cpu := mc.CPU
		a := uint16(sc.C("a")) & 7
		cpu.SetRegs(Regs{PC: uint16(base), RK: byte(base >> 16), SP: 0x01FF, RA: a, RAl: byte(a)})
		// widths the assembler was told to assume before the first instruction are applied
		// by the assume events at index 0 below (the tracker starts at 16-bit/16-bit)
		ei := 0
		steps := 0
		for ei < len(evs) {
			ev := evs[ei]
			if ev.kind == "assume" {
				p := cpu.FlagsP()
				if ev.op.K == "asep" {
					p |= byte(ev.op.Arg(0)) & 0x30
				} else {
					p &^= byte(ev.op.Arg(0)) & 0x30
				}
				cpu.SetFlagsP(p)
				ei++
				continue
			}
			r := cpu.Regs()
			if r.PCL() != ev.pc {
				return &sim.Violation{Oracle: "fetch_boundary", Step: ei,
					Msg: fmt.Sprintf("%s: about to fetch at %06x, but the assembler reported instruction %d (%s) at %06x (M=%d X=%d)", cpu.Kind(), r.PCL(), ei, ev.op, ev.pc, r.M, r.X)}
			}
			isMVN := ev.op.S == "MVN"
			for {
				var cyc int
				p, pv := sim.RecoverLib(func() { cyc, _ = cpu.Step() })
				steps++
				st.SimCycles += uint64(cyc)
				if p {
					_ = pv // a crashing Step is C08's business
					st.Abort("step_panic")
					goto nextCPU
				}
				if !isMVN || cpu.Regs().PCL() != ev.pc || steps > 300000 {
					break
				}
			}
			ei++
		}
		{
			r := cpu.Regs()
			env.ObsU64(r.Hash())
			if r.PCL() != endPC {
				return &sim.Violation{Oracle: "fetch_boundary", Step: len(evs),
					Msg: fmt.Sprintf("%s: after the last instruction PC=%06x, the assembler's PC()=%06x", cpu.Kind(), r.PCL(), endPC)}
			}
			if r.M != wantM || r.X != wantX {
				return &sim.Violation{Oracle: "final_widths", Step: len(evs),
					Msg: fmt.Sprintf("%s: after the last instruction CPU M=%d X=%d, assembler tracks M=%d X=%d", cpu.Kind(), r.M, r.X, wantM, wantX)}
			}
			st.Probe("executed_on_" + cpu.Kind())
		}
	nextCPU:
		continue
	}
	st.State(sim.HashU64(sim.HashBytes(0, prog), uint64(wantM)<<1|uint64(wantX)))
	return nil
}

func guardName(am *asmMethod) string {
	if am == nil || am.Guard == 0 {
		return "none"
	}
	return string(am.Guard)
}
