package worlds

import (
	"fmt"

	"github.com/alttpo/snes/asm"

	"verif/sim"
)

// C16 — emitting through Clone and Append is equivalent to emitting directly.
// Parties: original a, clone e, and a reference emitter d that receives the whole sequence
// directly. The simulator chooses the history, the split point, what is observed of a while
// the clone is being filled (isolation), and the capacity left in a when Append is called
// (fits exactly / one short / far short: atomicity of the refusal).
type c16 struct{}

func init() { sim.Register(c16{}) }

func (c16) ID() string     { return "C16" }
func (c16) Level() string  { return "exploration" }
func (c16) QuickRuns() int { return 120000 }
func (c16) Rule() string {
	return "each evaluation is one generated emitter history split at a generated point: head into emitter a, tail into a.Clone(), observations of a interleaved with the tail ops, Append with a chosen remaining capacity (ample, exact, one short, far short, nil targets), then post ops and Finalize on both a and a directly-fed twin d; distinct = distinct scenario hash; non-trivial = a label reference or definition crosses the split, or the Append was refused, or the capacity fits exactly"
}
func (c16) Assumptions() []string {
	return []string{
		"the original is not mutated between Clone and Append (the property does not define that)",
		"Finalize and listings are not requested from the clone itself, only from the original after Append (the property compares the resulting emitter)",
		"the clone's target is non-nil whenever the original's is, and large enough for the tail",
		"after a failed Finalize the two emitters may have patched different subsets of operands (C06 allows it); each must still only have touched operand bytes",
	}
}
func (c16) Components() map[string][]string {
	return map[string][]string{"real": {"asm.Emitter Clone/Append/Finalize/WriteTextTo/WriteHexTo (instrumented copy, seeded map-range order)"}, "stub": {"SimSink for listings"}}
}

func (c16) Gen(r *sim.Rand, tier string, run uint64) *sim.Scenario {
	sc := &sim.Scenario{Cfg: map[string]int64{}}
	ops, _ := genAsmHistory(r, 36, 400, true, false)
	// a "hot" label collects most references, so that its pending-reference list is long
	hot := int64(r.Intn(allLabelIdx))
	for i := range ops {
		if ops[i].K == "ref" && r.Chance(1, 2) {
			ops[i].N = []int64{hot}
		}
	}
	if r.Chance(1, 3) {
		at := r.Intn(len(ops) + 1)
		ops = append(ops[:at], append([]sim.Op{{K: "finalize"}}, ops[at:]...)...)
	}
	// split points
	split := r.Intn(len(ops) + 1)
	switch r.Intn(6) {
	case 0:
		split = 0
	case 1:
		split = len(ops)
	}
	appendAt := split + r.Intn(len(ops)-split+1)
	if r.Chance(2, 3) {
		appendAt = len(ops)
	}
	var out []sim.Op
	baseSet, base := genBase(r, 500)
	basePos := 0
	if baseSet && r.Chance(1, 5) {
		basePos = 1 // SetBase issued on the clone (split before the first emission)
	}
	if baseSet && basePos == 0 {
		if r.Chance(1, 5) {
			// a header remark ahead of SetBase (the listing has a line before the base directive)
			out = append(out, genComment(r))
		}
		out = append(out, sim.Op{K: "setbase", N: []int64{int64(base)}})
		if r.Chance(1, 4) {
			split = 0 // the split directly behind SetBase
		}
	}
	if basePos == 1 && r.Chance(1, 2) {
		// the original already has a base (nothing emitted yet) and the tail re-bases, upwards
		// or downwards: SetBase twice in a row on the direct emitter
		b0 := int64(sim.PickInt(r, int(base)+0x800000, int(base)+0x100, int(base)+4, int(base)-0x40, int(base)-2, int(base)+0x10000, 0xFFFF00)) & 0xFFFFFF
		out = append(out, sim.Op{K: "setbase", N: []int64{b0}})
	}
	if basePos == 1 {
		// nothing may have been emitted before: keep only directives in the head
		n := 0
		for n < len(ops) && opSize(ops[n]) == 0 && ops[n].K != "finalize" {
			n++
		}
		if split > n {
			split = n
		}
		if appendAt < split {
			appendAt = split
		}
	}
	for i, op := range ops {
		if i == split {
			out = append(out, sim.Op{K: "clone"})
			if basePos == 1 {
				out = append(out, sim.Op{K: "setbase", N: []int64{int64(base)}})
			}
		}
		if i == appendAt && appendAt >= split && i != split {
			out = append(out, sim.Op{K: "append"})
		}
		if i >= split && i < appendAt && op.K == "finalize" {
			continue // no Finalize on the clone
		}
		out = append(out, op)
		if i >= split && i < appendAt && r.Chance(1, 3) {
			out = append(out, sim.Op{K: "observe"})
		}
	}
	if split == len(ops) {
		out = append(out, sim.Op{K: "clone"})
		if basePos == 1 {
			out = append(out, sim.Op{K: "setbase", N: []int64{int64(base)}})
		}
	}
	if r.Chance(1, 5) {
		// a nested split: part of the tail goes through a clone of the clone
		ci, ai := -1, -1
		for i, o := range out {
			if o.K == "clone" && ci < 0 {
				ci = i
			}
			if o.K == "append" && ai < 0 {
				ai = i
			}
		}
		if ai < 0 {
			ai = len(out)
		}
		if ci >= 0 && ai-ci >= 2 {
			a := ci + 1 + r.Intn(ai-ci-1)
			b := a + 1 + r.Intn(ai-a)
			var o2 []sim.Op
			o2 = append(o2, out[:a]...)
			o2 = append(o2, sim.Op{K: "clone2"})
			o2 = append(o2, out[a:b]...)
			o2 = append(o2, sim.Op{K: "append2"})
			o2 = append(o2, out[b:]...)
			out = o2
		}
	}
	hasAppend := false
	for _, o := range out {
		if o.K == "append" {
			hasAppend = true
		}
	}
	if !hasAppend {
		out = append(out, sim.Op{K: "observe"}, sim.Op{K: "append"})
	}
	out = append(out, sim.Op{K: "finalize"})
	sc.Ops = out
	sc.Cfg["gentext"] = int64(r.Intn(2))
	// capacity of a relative to head+tail: 0 exact, -1 one short, -2 far short, 1 ample, 2 nil targets
	sc.Cfg["capmode"] = int64(sim.PickInt(r, 1, 1, 1, 0, 0, -1, -1, -2, 2))
	// a second clone of the same original, alive at the same time, receives the same tail
	// shifted by one byte and is then discarded: two emitters derived from one parent
	sc.Cfg["twoclones"] = int64(r.Intn(3) / 2)
	if sc.Cfg["capmode"] != 2 && r.Chance(1, 5) {
		// the clone emits in place: the original's target is a window of a larger image and the
		// clone is given the image from the original's first free byte on, past that window
		sc.Cfg["inplace"] = 1
	}
	return sc
}

type emView struct {
	snap asmSnap
	text string
	hex  string
	ok   bool
}

func viewEmitter(e *asm.Emitter, env *sim.Env, listings bool) (emView, *sim.Violation) {
	v := emView{snap: snapEmitter(e)}
	if v.snap.Err != "" {
		return v, &sim.Violation{Oracle: "accessor_panic", Msg: v.snap.Err}
	}
	if listings {
		for kind := int64(0); kind < 2; kind++ {
			s := sim.NewSink(env, sim.SinkOK, 0)
			p, pmsg, err := doListing(e, kind, s)
			if p || err != nil {
				return v, &sim.Violation{Oracle: "listing_failed", Msg: fmt.Sprintf("listing kind %d: panic=%v %s err=%v", kind, p, pmsg, err)}
			}
			if kind == 0 {
				v.text = string(s.All())
			} else {
				v.hex = string(s.All())
			}
		}
	}
	v.ok = true
	return v, nil
}

// diffNoBytes compares everything but the byte image and the listings (which show bytes).
func (a emView) diffNoBytes(b emView) string {
	x, y := a.snap, b.snap
	x.Bytes, y.Bytes = nil, nil
	return x.diff(y, true)
}

func (a emView) diff(b emView) string {
	if d := a.snap.diff(b.snap, true); d != "" {
		return d
	}
	if a.text != b.text {
		return fmt.Sprintf("text listings differ:\n--- \n%s\n+++\n%s", clip(a.text), clip(b.text))
	}
	if a.hex != b.hex {
		return "hex listings differ"
	}
	return ""
}

func clip(s string) string {
	if len(s) > 600 {
		return s[:600] + "..."
	}
	return s
}

func (c16) Exec(sc *sim.Scenario, env *sim.Env) *sim.Violation {
	sim.Activate(env)
	defer sim.Deactivate()
	st := env.Stats
	env.SetWatchdog(uint64(len(sc.Ops)+4) * 2000000)
	gentext := sc.C("gentext") != 0
	capmode := sc.C("capmode")

	// sizes of head and tail as accepted by an unconstrained emitter (model, measuring mode)
	mm := newAsmModel(false, 0, false)
	phase := 0
	var headSize, tailSize, postSize uint32
	for _, op := range sc.Ops {
		switch op.K {
		case "clone":
			if phase == 0 {
				phase = 1
			}
			continue
		case "append":
			if phase == 1 {
				phase = 2
			}
			continue
		case "observe", "finalize":
			continue
		}
		before := mm.Addr
		isBase := op.K == "setbase"
		mm.step(op)
		if isBase {
			continue
		}
		switch phase {
		case 0:
			headSize += mm.Addr - before
		case 1:
			tailSize += mm.Addr - before
		default:
			postSize += mm.Addr - before
		}
	}
	nilTargets := capmode == 2
	acap := int(headSize + tailSize)
	switch capmode {
	case 1:
		acap += int(postSize) + 16
	case -1:
		if tailSize >= 1 {
			acap--
		}
	case -2:
		acap = int(headSize)
		if tailSize > 3 {
			acap += int(tailSize) / 2
		}
	}
	var guards [][]byte
	mk := func(n int) []byte {
		if nilTargets {
			return nil
		}
		t, g := mkTarget(n, sc.Seed&2 == 2)
		if g != nil {
			guards = append(guards, g)
		}
		return t
	}
	guardsOK := func() bool {
		for _, g := range guards {
			if !guardIntact(g) {
				return false
			}
		}
		return true
	}
	aTarget := mk(acap)
	inplace := sc.C("inplace") != 0 && !nilTargets
	var big []byte
	if inplace {
		big = make([]byte, 8+acap+int(tailSize)+int(postSize)+64)
		for j := range big {
			big[j] = 0xEE
		}
		aTarget = big[8 : 8+acap]
		st.Probe("clone_emits_in_place")
	}
	var aTargetAtClone []byte
	a := asm.NewEmitter(aTarget, gentext)
	d := asm.NewEmitter(mk(acap), gentext)
	var e, e2 *asm.Emitter
	var e2Snap asmSnap // the discarded sibling clone as it was left
	haveE2 := false
	var outer *asm.Emitter // the first-level clone while a nested clone is being filled
	listings := gentext && !nilTargets

	var snapA emView // a at Clone time
	phase = 0
	labelsHead := map[int64]bool{}
	labelsTail := map[int64]bool{}
	refsHead := map[int64]bool{}
	refsTail := map[int64]bool{}
	cross := false
	appended := false
	// dirty: a Finalize has failed and no Finalize has succeeded since. Which operands a failed
	// Finalize patched depends on the label-visiting order (C06 allows any subset), so byte
	// images and listings of two emitters are not comparable until the next success.
	dirty := false
	for i, op := range sc.Ops {
		st.SimOps++
		switch op.K {
		case "clone":
			if phase != 0 {
				continue
			}
			var v *sim.Violation
			snapA, v = viewEmitter(a, env, listings)
			if v != nil {
				v.Step = i
				return v
			}
			aTargetAtClone = append([]byte{}, aTarget...)
			cloneTarget := mk(int(tailSize) + 8)
			if inplace {
				cloneTarget = big[8+a.Len():]
			}
			p, pv := sim.RecoverLib(func() { e = a.Clone(cloneTarget) })
			if p {
				return &sim.Violation{Oracle: "clone_panic", Step: i, Msg: sim.PanicString(pv)}
			}
			if sc.C("twoclones") != 0 {
				sim.RecoverLib(func() { e2 = a.Clone(mk(int(tailSize) + 24)) })
				if e2 != nil {
					asmApply(e2, sim.Op{K: "ins", S: "NOP"})
					st.Probe("second_clone_alive")
					e2Snap = snapEmitter(e2)
					haveE2 = true
				}
			}
			phase = 1
			st.ProbeIf(nilTargets, "clone_of_nil_target")
			continue
		case "clone2":
			if phase != 1 || outer != nil {
				continue
			}
			var n *asm.Emitter
			if p, pv := sim.RecoverLib(func() { n = e.Clone(mk(int(tailSize) + 8)) }); p || n == nil {
				return &sim.Violation{Oracle: "clone_panic", Step: i, Msg: "nested Clone: " + sim.PanicString(pv)}
			}
			outer, e = e, n
			st.Probe("nested_clone")
			continue
		case "append2":
			if phase != 1 || outer == nil {
				continue
			}
			if p, pv := sim.RecoverLib(func() { outer.Append(e) }); p {
				return &sim.Violation{Oracle: "append_refusal_mismatch", Step: i, Msg: "nested Append into a clone with room panicked: " + sim.PanicString(pv)}
			}
			e, outer = outer, nil
			continue
		case "observe":
			if phase != 1 {
				continue
			}
			now, v := viewEmitter(a, env, listings)
			if v != nil {
				v.Step = i
				v.Msg = "observing the original while the clone is filled: " + v.Msg
				return v
			}
			if dd := snapA.diff(now); dd != "" {
				return &sim.Violation{Oracle: "clone_not_isolated", Step: i, Msg: "before Append the original changed as a side effect of operations on the clone: " + dd}
			}
			if !inplace && string(aTarget) != string(aTargetAtClone) {
				return &sim.Violation{Oracle: "clone_not_isolated", Step: i, Msg: fmt.Sprintf("before Append the original's target buffer was written (offset %d, beyond its Len) by operations on the clone", firstDiff(aTarget, aTargetAtClone))}
			}
			st.Probe("isolation_observed")
			continue
		case "append":
			if phase != 1 {
				continue
			}
			if outer != nil {
				// an unfinished nested split: close it first
				if p, pv := sim.RecoverLib(func() { outer.Append(e) }); p {
					return &sim.Violation{Oracle: "append_refusal_mismatch", Step: i, Msg: "nested Append panicked: " + sim.PanicString(pv)}
				}
				e, outer = outer, nil
			}
			eBefore := snapEmitter(e)
			now, v := viewEmitter(a, env, listings)
			if v != nil {
				v.Step = i
				return v
			}
			if dd := snapA.diff(now); dd != "" {
				return &sim.Violation{Oracle: "clone_not_isolated", Step: i, Msg: "before Append the original changed as a side effect of operations on the clone: " + dd}
			}
			fits := nilTargets || snapA.snap.Len+eBefore.Len <= snapA.snap.Cap
			p, pv := sim.RecoverLib(func() { a.Append(e) })
			env.ObsBool(p)
			if !guardsOK() {
				return &sim.Violation{Oracle: "wrote_beyond_target", Step: i, Msg: "Append wrote behind a target slice (cap(target) > len(target))"}
			}
			if p != !fits {
				return &sim.Violation{Oracle: "append_refusal_mismatch", Step: i,
					Msg: fmt.Sprintf("Append of %d bytes into Len=%d Cap=%d: fits=%v but panicked=%v (%s)", eBefore.Len, snapA.snap.Len, snapA.snap.Cap, fits, p, sim.PanicString(pv))}
			}
			if p {
				st.Fault("append_refused")
				env.FaultYield("op")
				after, v := viewEmitter(a, env, listings)
				if v != nil {
					v.Step = i
					return v
				}
				if dd := snapA.diff(after); dd != "" {
					return &sim.Violation{Oracle: "append_refusal_not_atomic", Step: i, Msg: "a refused Append modified the original: " + dd}
				}
				if dd := eBefore.diff(snapEmitter(e), true); dd != "" {
					return &sim.Violation{Oracle: "append_refusal_touched_clone", Step: i, Msg: "a refused Append modified the clone: " + dd}
				}
				if !inplace && aTargetAtClone != nil && string(aTarget) != string(aTargetAtClone) {
					// the bytes behind Len() are the caller's (the old routine in a ROM slot that is
					// only replaced if the new one fits)
					return &sim.Violation{Oracle: "append_refusal_not_atomic", Step: i, Msg: fmt.Sprintf("a refused Append wrote into the original's target buffer (offset %d, behind its Len)", firstDiff(aTarget, aTargetAtClone))}
				}
				st.State(sim.HashU64(uint64(headSize), uint64(tailSize)))
				return nil // nothing to compare with the direct emitter
			}
			st.ProbeIf(!nilTargets && snapA.snap.Len+eBefore.Len == snapA.snap.Cap, "append_fits_exactly")
			if !nilTargets && snapA.snap.Len+eBefore.Len == snapA.snap.Cap {
				st.MarkNontrivial()
			}
			phase = 2
			appended = true
			va, v1 := viewEmitter(a, env, listings)
			vd, v2 := viewEmitter(d, env, listings)
			if v1 != nil {
				v1.Step = i
				v1.Msg = "after Append: " + v1.Msg
				return v1
			}
			if v2 != nil {
				v2.Step = i
				v2.Oracle = "HARNESS_PANIC"
				return v2
			}
			obsSnap(env, va.snap)
			dd := vd.diff(va)
			if dirty {
				dd = vd.diffNoBytes(va)
			}
			if dd != "" {
				return &sim.Violation{Oracle: "append_not_equivalent", Step: i, Msg: "direct emitter vs clone+append: " + dd}
			}
			if va.snap.Len > 0 && a.GetBase() != d.GetBase() {
				return &sim.Violation{Oracle: "append_not_equivalent", Step: i, Msg: fmt.Sprintf("GetBase: direct %#x, clone+append %#x", d.GetBase(), a.GetBase())}
			}
			continue
		case "finalize":
			if phase == 1 || nilTargets {
				continue // not on the clone; and Finalize needs a buffer to patch
			}
			var ea, ed error
			preA, preD := snapEmitter(a), snapEmitter(d)
			pa, pva := sim.RecoverLib(func() { ea = a.Finalize() })
			pd, pvd := sim.RecoverLib(func() { ed = d.Finalize() })
			env.ObsBool(pa)
			env.ObsErr(ea)
			if pa != pd || (ea == nil) != (ed == nil) {
				return &sim.Violation{Oracle: "finalize_outcome_differs", Step: i,
					Msg: fmt.Sprintf("Finalize: clone+append panic=%v (%s) err=%v; direct panic=%v (%s) err=%v", pa, sim.PanicString(pva), ea, pd, sim.PanicString(pvd), ed)}
			}
			postA, postD := snapEmitter(a), snapEmitter(d)
			if pa {
				return &sim.Violation{Oracle: "finalize_panic", Step: i, Msg: sim.PanicString(pva)}
			}
			dirty = ea != nil
			if ea == nil && !pa {
				if dd := postD.diff(postA, true); dd != "" {
					return &sim.Violation{Oracle: "finalized_bytes_differ", Step: i, Msg: "after successful Finalize, direct vs clone+append: " + dd}
				}
				st.Probe("finalize_ok_both")
			} else if !pa && capmode == 1 {
				// both failed (checked only when no emit was refused for capacity, so that the
				// measuring model's addresses are the real ones): each may only have touched operand bytes of label references
				mask := mm.operandMask(len(postA.Bytes))
				for j := range postA.Bytes {
					if j < len(mask) && !mask[j] && (postA.Bytes[j] != preA.Bytes[j] || postD.Bytes[j] != preD.Bytes[j]) {
						return &sim.Violation{Oracle: "failed_finalize_touched_other_byte", Step: i, Msg: fmt.Sprintf("offset %d changed by a failed Finalize", j)}
					}
				}
				st.Probe("finalize_fail_both")
			}
			continue
		}
		// emitter op
		switch phase {
		case 0:
			pa, ma := asmApply(a, op)
			pd, md := asmApply(d, op)
			if pa != pd {
				return &sim.Violation{Oracle: "HARNESS_PANIC", Step: i, Msg: fmt.Sprintf("identical emitters disagree on %s: %v(%s) %v(%s)", op, pa, ma, pd, md)}
			}
			if op.K == "label" && !pa {
				labelsHead[op.Arg(0)] = true
			}
			if op.K == "ref" && !pa {
				refsHead[op.Arg(0)] = true
			}
		case 1:
			dOverflows := !nilTargets && d.Len()+opSize(op) > d.Cap()
			pe, me := asmApply(e, op)
			pd, md := asmApply(d, op)
			if e2 != nil {
				asmApply(e2, op) // the sibling clone: same calls, addresses one byte higher
				e2Snap = snapEmitter(e2)
			}
			env.ObsBool(pe)
			if pe != pd {
				// d may refuse for capacity what the roomy clone accepts; that is only legitimate
				// if the Append is going to be refused, which ends the run before any comparison
				if !(pd && !pe && dOverflows) {
					return &sim.Violation{Oracle: "clone_op_outcome_differs", Step: i, Msg: fmt.Sprintf("op %s: clone panicked=%v (%s), direct panicked=%v (%s)", op, pe, me, pd, md)}
				}
			}
			if op.K == "label" && !pe {
				labelsTail[op.Arg(0)] = true
				if refsHead[op.Arg(0)] {
					st.Probe("forward_ref_across_split")
					cross = true
				}
			}
			if op.K == "ref" && !pe {
				refsTail[op.Arg(0)] = true
				if labelsHead[op.Arg(0)] {
					st.Probe("backward_ref_across_split")
					cross = true
				}
			}
			if op.K == "setbase" {
				st.Probe("setbase_on_clone")
			}
		default:
			pa, ma := asmApply(a, op)
			pd, md := asmApply(d, op)
			env.ObsBool(pa)
			if pa != pd {
				return &sim.Violation{Oracle: "post_append_op_outcome_differs", Step: i, Msg: fmt.Sprintf("op %s after Append: clone+append panicked=%v (%s), direct panicked=%v (%s)", op, pa, ma, pd, md)}
			}
			sa, sd := snapEmitter(a), snapEmitter(d)
			if dirty {
				sa.Bytes, sd.Bytes = nil, nil
			}
			if dd := sd.diff(sa, true); dd != "" {
				return &sim.Violation{Oracle: "post_append_state_differs", Step: i, Msg: fmt.Sprintf("after %s (issued after Append), direct vs clone+append: %s", op, dd)}
			}
			if op.K == "label" && !pa && (refsHead[op.Arg(0)] || refsTail[op.Arg(0)]) {
				cross = true
			}
		}
	}
	if appended && listings && !dirty {
		va, v1 := viewEmitter(a, env, true)
		vd, _ := viewEmitter(d, env, true)
		if v1 != nil {
			v1.Step = len(sc.Ops)
			return v1
		}
		if dd := vd.diff(va); dd != "" {
			return &sim.Violation{Oracle: "final_not_equivalent", Step: len(sc.Ops), Msg: "at the end, direct vs clone+append: " + dd}
		}
	}
	if cross {
		st.MarkNontrivial()
	}
	if haveE2 {
		// a clone that was put aside is an emitter of its own: what the original and the other
		// clone went through afterwards does not reach it
		if d := e2Snap.diff(snapEmitter(e2), true); d != "" {
			return &sim.Violation{Oracle: "clone_not_isolated", Step: len(sc.Ops), Msg: "a clone that was put aside right after Clone changed through later operations on the original and its other clone: " + d}
		}
	}
	st.ProbeIf(len(labelsHead) > 0 && len(labelsTail) > 0, "label_on_both_sides")
	st.State(sim.HashU64(sim.HashU64(uint64(headSize), uint64(tailSize)), uint64(capmode)))
	return nil
}
