package worlds

import (
	"bytes"

	snes "github.com/alttpo/snes"
	"github.com/alttpo/snes/color15"
	"github.com/alttpo/snes/mapping/exhirom"
	"github.com/alttpo/snes/mapping/hirom"
	"github.com/alttpo/snes/mapping/lorom"
	"github.com/alttpo/snes/mapping/sa1rom"
	"github.com/alttpo/snes/mapping/util"

	"verif/sim"
)

// pureRole is not a property check: it is the C18 role that hammers the stateless mapping,
// colour and header functions ("together with concurrent calls of the stateless mapping and
// colour functions"). Its only oracle is C18's: same observations solo and interleaved.
type pureRole struct{}

func (pureRole) Gen(r *sim.Rand, tier string, run uint64) *sim.Scenario {
	sc := &sim.Scenario{Cfg: map[string]int64{}}
	n := r.Range(10, 120)
	for i := 0; i < n; i++ {
		switch r.Intn(5) {
		case 0, 1:
			sc.Ops = append(sc.Ops, sim.Op{K: "map", N: []int64{int64(r.Intn(4)), int64(r.Intn(2)), int64(r.Intn(1 << 24))}})
		case 2:
			sc.Ops = append(sc.Ops, sim.Op{K: "b2l", N: []int64{int64(r.Intn(1 << 24))}})
		case 3:
			sc.Ops = append(sc.Ops, sim.Op{K: "color", N: []int64{int64(r.Intn(1 << 16)), int64(r.Intn(256)), int64(r.Range(1, 255))}})
		case 4:
			sc.Ops = append(sc.Ops, sim.Op{K: "hdr", B: r.Bytes(0x50)})
		}
	}
	return sc
}

func (pureRole) Exec(sc *sim.Scenario, env *sim.Env) *sim.Violation {
	for _, op := range sc.Ops {
		env.Yield("op")
		sim.RecoverLib(func() {
			switch op.K {
			case "map":
				a := uint32(op.Arg(2))
				var out uint32
				var err error
				fns := [4][2]func(uint32) (uint32, error){
					{lorom.BusAddressToPak, lorom.PakAddressToBus},
					{hirom.BusAddressToPak, hirom.PakAddressToBus},
					{exhirom.BusAddressToPak, exhirom.PakAddressToBus},
					{sa1rom.BusAddressToPak, sa1rom.PakAddressToBus},
				}
				out, err = fns[op.Arg(0)&3][op.Arg(1)&1](a)
				env.ObsU64(uint64(out))
				env.ObsErr(err)
				env.ObsBool(err == util.ErrUnmappedAddress)
			case "b2l":
				env.ObsU64(uint64(util.BankToLinear(uint32(op.Arg(0)))))
			case "color":
				c := color15.Color(op.Arg(0))
				r, g, b := c.ToRGB()
				env.ObsU64(uint64(r)<<16 | uint64(g)<<8 | uint64(b))
				env.ObsU64(uint64(c.Luminosity()))
				d := uint8(op.Arg(2))
				if d == 0 {
					d = 1
				}
				env.ObsU64(uint64(c.MulDiv(uint8(op.Arg(1)), d)))
				env.ObsU64(uint64(color15.ToColor15(r, g, b)))
			case "hdr":
				var h snes.Header
				buf := make([]byte, 0x50)
				copy(buf, op.B)
				err := h.ReadHeader(bytes.NewReader(buf))
				env.ObsErr(err)
				env.ObsInt(h.HeaderVersion())
				env.ObsInt(h.Score(0x7FB0))
				var out bytes.Buffer
				env.ObsErr(h.WriteHeader(&out))
				env.ObsBytes(out.Bytes())
				env.ObsStr(snes.RegionNames[snes.Region(buf[0x29])])
			}
		})
		env.OpDone()
	}
	return nil
}
