package worlds

import (
	"fmt"
	"strings"

	"github.com/alttpo/snes/asm"

	"verif/sim"
)

// C18 — separate emulator, emitter and ROM instances never interfere across goroutines.
// The quantifier is over schedules: 2-6 parties (real goroutines, one runnable at a time)
// each own their instances and run the script of one of the other worlds; the baton may
// change hands at every seam call and at every function entry and loop iteration of library
// code (P-yield). Oracles: (1) every party reproduces, op by op, the observation digest of
// its solo run; (2) no registered package-level variable changes during the interleaved
// phase — checked at every context switch (raw bytes) and at the end (deep).
type c18 struct{}

func init() { sim.Register(c18{}) }

type roleWorld interface {
	Gen(r *sim.Rand, tier string, run uint64) *sim.Scenario
	Exec(sc *sim.Scenario, env *sim.Env) *sim.Violation
}

func roleByName(name string) roleWorld {
	if name == "PURE" {
		return pureRole{}
	}
	if name == "CLONEX" {
		return cloneXRole{}
	}
	if w, ok := sim.Worlds[name]; ok && name != "C18" {
		return w
	}
	return nil
}

var c18Roles = []string{"C12", "C14", "C12", "C14", "C07", "C06", "C15", "C16", "C19", "C10", "C13", "PURE", "PURE"}

func (c18) ID() string     { return "C18" }
func (c18) Level() string  { return "exploration" }
func (c18) QuickRuns() int { return 320 }
func (c18) Rule() string {
	return "each evaluation is one world of 2-6 parties with roles drawn from {System+RunUntil+Logger, bare cpu65c816, bare cpualt with DisassembleTo, emitter build/clone/finalize/listing, ROM streams, bus routing, mapper/colour/header loops} (identical twins deliberately included), each party's script first executed alone, then all interleaved under k seeded schedules (quick 4, thorough 24) whose switch probability per yield point is drawn from {0, 5e-6, 1e-4, 2e-3, 5e-2, 0.5} with switches forced after fault events; distinct = distinct scenario hash; non-trivial = at least one context switch occurred while two parties were alive; distinct_schedules counts distinct (site class, party) switch sequences"
}
func (c18) Assumptions() []string {
	return []string{
		"the deterministic scheduler serialises parties: it shows absence of interference at every yield point and of writes to package-level state, not absence of same-value data races or word tearing, which exist only under real parallelism (DESIGN §7)",
		"package-level state changed during a party's solo (warm-up) pass is tolerated; the verdict covers the interleaved phase",
		"violations of other properties found by a party's own oracle are part of its observations (must be identical solo and interleaved), not C18 verdicts",
		"a world whose yield budget is exhausted is discarded and counted",
	}
}
func (c18) Components() map[string][]string {
	return map[string][]string{
		"real": {"every package of alttpo/snes (instrumented copy: 514 yield sites, seeded map-range order, globals registry)", "real goroutines, one per party, released one at a time by the baton scheduler"},
		"stub": {"SimMem, SimSink/RCSink, stream clients, observer callbacks (as in the single-party worlds)"},
	}
}

func (c18) Gen(r *sim.Rand, tier string, run uint64) *sim.Scenario {
	sc := &sim.Scenario{Cfg: map[string]int64{}}
	n := r.Range(2, 6)
	heavy := 0
	for len(sc.Tasks) < n {
		role := c18Roles[r.Intn(len(c18Roles))]
		if role == "C12" || role == "C14" || role == "C07" {
			if heavy >= 3 {
				continue
			}
			heavy++
		}
		seed := r.U64()
		sub := roleByName(role).Gen(sim.ForkSeed(seed, "gen"), "quick", run)
		t := sim.Task{Role: role, Seed: seed, Cfg: sub.Cfg, Ops: sub.Ops}
		sc.Tasks = append(sc.Tasks, t)
		if r.Chance(1, 4) && len(sc.Tasks) < n && !(heavy >= 3 && (role == "C12" || role == "C14" || role == "C07")) {
			// an identical twin: same role, same script, same seed
			sc.Tasks = append(sc.Tasks, t)
			if role == "C12" || role == "C14" || role == "C07" {
				heavy++
			}
		}
	}
	if r.Chance(1, 3) {
		// a clone group: 2-3 parties each emit into their own Clone of one common parent emitter
		// (shared read-only), e.g. alternatives assembled in parallel from a common prefix
		base := cloneXRole{}.Gen(sim.ForkSeed(r.U64(), "gen"), "quick", run)
		k := r.Range(2, 3)
		for i := 0; i < k; i++ {
			var ops []sim.Op
			inTail := false
			for _, op := range base.Ops {
				if op.K == "clone" {
					inTail = true
					ops = append(ops, op)
					continue
				}
				if inTail && op.K != "ref" && op.K != "label" && r.Chance(1, 4) {
					continue // siblings differ in their tails
				}
				ops = append(ops, op)
			}
			cfg := map[string]int64{"group": int64(len(sc.Tasks) + 1 - i), "shift": int64(i), "gentext": base.Cfg["gentext"]}
			cfg["group"] = int64(1000 + run%1000)
			sc.Tasks = append(sc.Tasks, sim.Task{Role: "CLONEX", Seed: r.U64(), Cfg: cfg, Ops: ops})
		}
	}
	sc.Cfg["nsched"] = 4
	if tier == "thorough" {
		sc.Cfg["nsched"] = 24
	}
	return sc
}

type taskResult struct {
	digest uint64
	ops    []uint64
	viol   string
}

func runTask(t sim.Task, idx int, env *sim.Env) (res string) {
	rw := roleByName(t.Role)
	if rw == nil {
		return "unknown role"
	}
	sub := &sim.Scenario{Prop: t.Role, Seed: t.Seed, Cfg: t.Cfg, Ops: t.Ops}
	defer func() {
		if r := recover(); r != nil {
			if wd, ok := r.(sim.WatchdogAbort); ok {
				panic(wd)
			}
			// anything else a script provokes is an observation of that party
			res = "panic: " + sim.PanicString(r)
		}
	}()
	if v := rw.Exec(sub, env); v != nil {
		return v.Oracle
	}
	return ""
}

func taskEnv(sc *sim.Scenario, i int) *sim.Env {
	e := sim.NewEnv(sim.NewStats(), map[string]bool{"D2": true}, sc.Tasks[i].Seed)
	e.Task = i
	return e
}

var ppmClasses = []int{0, 5, 100, 2000, 50000, 500000}

// c18cold: no C18 world has run in this process yet. The first world of a process runs one
// thrashing interleaved schedule BEFORE the solo passes: state that the library initialises
// lazily on first use (and publishes before it is complete) is then initialised while the
// parties are interleaved, which the usual order (solo passes first = warm-up) can never see.
var c18cold = true

func (c c18) Exec(sc *sim.Scenario, env *sim.Env) *sim.Violation {
	before := sim.ProcessExits()
	v := c.exec(sc, env)
	if n := sim.ProcessExits() - before; n > 0 && (v == nil || !strings.HasPrefix(v.Oracle, "HARNESS_")) {
		// os.Exit / log.Fatal in the library: in production this ends the process, and with it
		// every other instance, whatever their owners do (P-exit turns it into a recorded panic)
		return &sim.Violation{Oracle: "library_terminated_process", Step: -1, NoShrink: v != nil && v.NoShrink,
			Msg: fmt.Sprintf("the library called os.Exit/log.Fatal %d time(s) while the parties ran: one instance's fault ends every other instance in the process", n)}
	}
	return v
}

func (c18) exec(sc *sim.Scenario, env *sim.Env) *sim.Violation {
	st := env.Stats
	nt := len(sc.Tasks)
	if nt == 0 {
		return nil
	}
	if nt > 8 {
		nt = 8
	}
	var coldRes []taskResult
	var coldSched []sim.Switch
	if c18cold && sc.Sched == nil {
		c18cold = false
		envs := make([]*sim.Env, nt)
		for i := range envs {
			envs[i] = taskEnv(sc, i)
		}
		scc := *sc
		scc.Seed = sim.Mix(sc.Seed ^ 0xc01d)
		scc.SwitchPPM = 300000
		sched := sim.NewSched(&scc, envs, st, 900000000)
		results := make([]string, nt)
		tasks := make([]func(e *sim.Env), nt)
		for i := 0; i < nt; i++ {
			i := i
			tasks[i] = func(e *sim.Env) { results[i] = runTask(sc.Tasks[i], i, e) }
		}
		sched.Run(tasks)
		if sched.Deadlocked {
			sc.Sched = append([]sim.Switch{}, sched.Recorded...)
			sc.Cfg["nsched"] = 1
			return sched.Viol
		}
		if !sched.Aborted {
			for i := 0; i < nt; i++ {
				coldRes = append(coldRes, taskResult{envs[i].Digest(), nil, results[i]})
			}
			coldSched = sched.Recorded
			st.Probe("cold_start_interleaved_first")
		}
	} else if sc.C("coldfirst") != 0 && c18cold {
		// replay of a cold-start finding: same order, explicit schedule
		c18cold = false
		envs := make([]*sim.Env, nt)
		for i := range envs {
			envs[i] = taskEnv(sc, i)
		}
		sched := sim.NewSched(sc, envs, st, 900000000)
		results := make([]string, nt)
		tasks := make([]func(e *sim.Env), nt)
		for i := 0; i < nt; i++ {
			i := i
			tasks[i] = func(e *sim.Env) { results[i] = runTask(sc.Tasks[i], i, e) }
		}
		sched.Run(tasks)
		if !sched.Aborted && !sched.Deadlocked {
			for i := 0; i < nt; i++ {
				coldRes = append(coldRes, taskResult{envs[i].Digest(), nil, results[i]})
			}
			coldSched = sched.Recorded
		}
	}
	c18cold = false
	// 1. solo passes (also the warm-up of initialise-once state)
	solo := make([]taskResult, nt)
	rolesSeen := map[string]bool{}
	gPrev := sim.SnapshotGlobals(true)
	for i := 0; i < nt; i++ {
		e := taskEnv(sc, i)
		e.SetWatchdog(600000000)
		sim.Activate(e)
		v := runTask(sc.Tasks[i], i, e)
		sim.Deactivate()
		solo[i] = taskResult{e.Digest(), append([]uint64{}, e.OpObs...), v}
		st.SimOps += uint64(len(sc.Tasks[i].Ops))
		if v == "fragment_changed_by_append" {
			// the CLONEX role's own oracle belongs to this property: two separately created
			// emitters that are handed the same fragment must end up alike
			return &sim.Violation{Oracle: "interference_through_shared_fragment", Step: -1,
				Msg: fmt.Sprintf("party %d (%s): the same fragment (a Clone) appended to two separately created, identical parents gave two different programs: appending it to the first changed what the second got", i, sc.Tasks[i].Role)}
		}
		// package-level state may be initialised by the first party of a role (warm-up); a
		// later party of the same role changing it again is mutable shared state, visible
		// even without any interleaving
		gNow := sim.SnapshotGlobals(true)
		if diff := gPrev.Diff(gNow); len(diff) > 0 {
			if rolesSeen[sc.Tasks[i].Role] {
				return &sim.Violation{Oracle: "package_state_mutated", Step: -1,
					Msg: fmt.Sprintf("package-level variable(s) %v changed during the solo pass of party %d (%s), although a party of that role had already run (not initialise-once state)", diff, i, sc.Tasks[i].Role)}
			}
			st.Probe("warmup_changed_package_state")
		}
		gPrev = gNow
		rolesSeen[sc.Tasks[i].Role] = true
	}
	for i := range coldRes {
		if coldRes[i].digest != solo[i].digest || coldRes[i].viol != solo[i].viol {
			sc.Sched = append([]sim.Switch{}, coldSched...)
			if sc.Sched == nil {
				sc.Sched = []sim.Switch{}
			}
			sc.Cfg["nsched"] = 1
			sc.Cfg["coldfirst"] = 1
			return &sim.Violation{Oracle: "interference_at_cold_start", Step: -1, NoShrink: true,
				Msg: fmt.Sprintf("party %d (%s), interleaved with the others as the very first use of the library in this process, observed something else than alone afterwards: state that is initialised lazily on first use is visible to other goroutines before it is complete (schedule of %d switches)", i, sc.Tasks[i].Role, len(coldSched))}
		}
	}
	if sc.C("coldfirst") != 0 {
		return nil // replay of a cold-start finding: nothing else to look at
	}
	// 2. baseline of package-level state
	g0s := sim.SnapshotGlobals(false)
	g0d := sim.SnapshotGlobals(true)
	if len(st.Notes) == 0 {
		st.Notes["globals_hashed"] = strings.Join(sim.GlobalNames(), " ")
	}

	nsched := int(sc.C("nsched"))
	if nsched < 1 {
		nsched = 1
	}
	if sc.Sched != nil {
		nsched = 1
	}
	pr := sim.ForkSeed(sc.Seed, "ppm")
	for j := 0; j < nsched; j++ {
		envs := make([]*sim.Env, nt)
		parents := map[uint64]interface{}{}
		for i := range envs {
			envs[i] = taskEnv(sc, i)
			if sc.Tasks[i].Role == "CLONEX" {
				// parties share a parent only if it is the same parent: same group, same head script
				// and settings (shrinking may have edited one sibling's head)
				head, _ := cloneHead(sc.Tasks[i].Ops)
				g := sim.HashU64(uint64(sc.Tasks[i].Cfg["group"]), uint64(sc.Tasks[i].Cfg["gentext"]))
				for _, op := range head {
					g = sim.HashBytes(sim.HashBytes(g, []byte(op.String())), op.B)
				}
				if parents[g] == nil {
					parents[g] = buildCloneParent(&sc.Tasks[i])
				}
				envs[i].Shared = parents[g]
			}
		}
		scj := *sc
		scj.Seed = sim.Mix(sc.Seed + uint64(j)*0x9E37)
		scj.SwitchPPM = sc.SwitchPPM
		if sc.Sched == nil && sc.SwitchPPM == 0 {
			scj.SwitchPPM = ppmClasses[pr.Intn(len(ppmClasses))]
			if j == 0 {
				scj.SwitchPPM = 2000
			}
		}
		sched := sim.NewSched(&scj, envs, st, 900000000)
		switchChecks := 0
		sched.OnSwitch = func(from, to int, site string) *sim.Violation {
			switchChecks++
			if switchChecks > 2000 && switchChecks%64 != 0 {
				return nil
			}
			var diff []string
			if switchChecks%256 == 1 {
				diff = g0d.Diff(sim.SnapshotGlobals(true)) // follows pointers, maps, slices
			} else {
				diff = g0s.Diff(sim.SnapshotGlobals(false))
			}
			if len(diff) > 0 {
				return &sim.Violation{Oracle: "package_state_mutated", Step: -1,
					Msg: fmt.Sprintf("package-level variable(s) %v changed while party %d (%s) was running, observed at a context switch to party %d at %s", diff, from, sc.Tasks[from].Role, to, site)}
			}
			return nil
		}
		results := make([]string, nt)
		tasks := make([]func(e *sim.Env), nt)
		for i := 0; i < nt; i++ {
			i := i
			tasks[i] = func(e *sim.Env) { results[i] = runTask(sc.Tasks[i], i, e) }
		}
		sched.Run(tasks)
		if sched.Viol != nil && strings.HasPrefix(sched.Viol.Oracle, "HARNESS_") {
			return sched.Viol
		}
		if sched.Deadlocked {
			if sc.Sched == nil {
				sc.Sched = append([]sim.Switch{}, sched.Recorded...)
				if sc.Sched == nil {
					sc.Sched = []sim.Switch{}
				}
				sc.Cfg["nsched"] = 1
			}
			return sched.Viol
		}
		if sched.Aborted {
			st.Abort("yield_budget_exhausted")
			continue
		}
		fail := func(v *sim.Violation) *sim.Violation {
			// make the schedule explicit: the replay file carries the switch list itself
			if sc.Sched == nil {
				sc.Sched = append([]sim.Switch{}, sched.Recorded...)
				if sc.Sched == nil {
					sc.Sched = []sim.Switch{}
				}
				sc.Cfg["nsched"] = 1
			}
			return v
		}
		if sched.Viol != nil {
			return fail(sched.Viol)
		}
		// package-level state first: it is the more fundamental finding, and unlike a digest
		// mismatch caused by state leaking in from earlier worlds it reproduces in a fresh process
		if diff := g0d.Diff(sim.SnapshotGlobals(true)); len(diff) > 0 {
			return fail(&sim.Violation{Oracle: "package_state_mutated", Step: -1, Msg: fmt.Sprintf("package-level variable(s) %v differ after the interleaved phase", diff)})
		}
		for i := 0; i < nt; i++ {
			e := envs[i]
			if results[i] != solo[i].viol || e.Digest() != solo[i].digest {
				first := -1
				for k := 0; k < len(e.OpObs) && k < len(solo[i].ops); k++ {
					if e.OpObs[k] != solo[i].ops[k] {
						first = k
						break
					}
				}
				return fail(&sim.Violation{Oracle: "interference", Step: first,
					Msg: fmt.Sprintf("party %d (%s) observed something else interleaved than alone (first differing op %d; own-oracle result %q vs %q alone) under a schedule of %d switches", i, sc.Tasks[i].Role, first, results[i], solo[i].viol, len(sched.Recorded))})
			}
		}
		st.Probe(fmt.Sprintf("schedule_ppm_%d", scj.SwitchPPM))
		st.ProbeIf(len(sched.Recorded) >= 30000, "switch_cap_reached")
	}
	for _, t := range sc.Tasks {
		st.Probe("role_" + t.Role)
	}
	st.State(sim.HashU64(uint64(nt), solo[0].digest))
	return nil
}

// ---------------------------------------------------------------------------------------
// CLONEX role: parties that each own a Clone of one common parent emitter. Alone, a party
// builds the parent itself; interleaved, the parties of a group clone the same parent object
// (which nobody mutates). Each party emits its tail into its clone, appends the clone to a
// private twin of the parent and finalizes that: the observations must not depend on the
// existence of sibling clones.
type cloneXRole struct{}

func (cloneXRole) Gen(r *sim.Rand, tier string, run uint64) *sim.Scenario {
	sc := &sim.Scenario{Cfg: map[string]int64{"gentext": int64(r.Intn(2))}}
	head, _ := genAsmHistory(r, 24, 200, true, false)
	tail, _ := genAsmHistory(r, 16, 120, true, false)
	hot := int64(r.Intn(allLabelIdx))
	fix := func(ops []sim.Op) []sim.Op {
		var out []sim.Op
		for _, op := range ops {
			if op.K == "ref" {
				// absolute jumps to one label defined at the very end: its pending-reference list
				// grows across the split and Finalize can always succeed
				op = sim.Op{K: "ref", S: "JMP_abs", N: []int64{hot}}
			}
			if op.K == "label" && op.Arg(0) == hot {
				continue
			}
			out = append(out, op)
			if op.K == "ins" && r.Chance(1, 6) {
				out = append(out, sim.Op{K: "ref", S: "JMP_abs", N: []int64{hot}})
			}
		}
		return out
	}
	sc.Ops = append(fix(head), sim.Op{K: "clone"})
	sc.Ops = append(sc.Ops, fix(tail)...)
	sc.Ops = append(sc.Ops, sim.Op{K: "ref", S: "JMP_abs", N: []int64{hot}}, sim.Op{K: "label", N: []int64{hot}})
	return sc
}

func cloneHead(ops []sim.Op) (head, tail []sim.Op) {
	for i, op := range ops {
		if op.K == "clone" {
			return ops[:i], ops[i+1:]
		}
	}
	return ops, nil
}

func buildCloneParent(t *sim.Task) interface{} {
	head, _ := cloneHead(t.Ops)
	e := asm.NewEmitter(make([]byte, 1024), t.Cfg["gentext"] != 0)
	for _, op := range head {
		asmApply(e, op)
	}
	return e
}

func (cloneXRole) Exec(sc *sim.Scenario, env *sim.Env) *sim.Violation {
	head, tail := cloneHead(sc.Ops)
	t := sim.Task{Cfg: sc.Cfg, Ops: sc.Ops}
	var parent *asm.Emitter
	if p, ok := env.Shared.(*asm.Emitter); ok && p != nil {
		parent = p
	} else {
		parent = buildCloneParent(&t).(*asm.Emitter)
	}
	var clone *asm.Emitter
	if p, _ := sim.RecoverLib(func() { clone = parent.Clone(make([]byte, 512)) }); p || clone == nil {
		env.ObsStr("clone panicked")
		return nil
	}
	for i := int64(0); i < sc.C("shift"); i++ {
		asmApply(clone, sim.Op{K: "ins", S: "NOP"})
	}
	for _, op := range tail {
		env.Yield("op")
		p, _ := asmApply(clone, op)
		env.ObsBool(p)
		env.ObsU64(uint64(clone.PC()))
		env.ObsInt(clone.Len())
		env.OpDone()
	}
	private := buildCloneParent(&sim.Task{Cfg: sc.Cfg, Ops: head}).(*asm.Emitter)
	pa, _ := sim.RecoverLib(func() { private.Append(clone) })
	env.ObsBool(pa)
	// the same fragment goes into a second, separately created twin of the parent as well (a
	// routine that is patched into two images): both must end up alike
	second := buildCloneParent(&sim.Task{Cfg: sc.Cfg, Ops: head}).(*asm.Emitter)
	pa2, _ := sim.RecoverLib(func() { second.Append(clone) })
	var err, err2 error
	pf, _ := sim.RecoverLib(func() { err = private.Finalize() })
	pf2, _ := sim.RecoverLib(func() { err2 = second.Finalize() })
	env.ObsBool(pf)
	env.ObsBool(err == nil)
	if err == nil && !pf {
		obsSnap(env, snapEmitter(private)) // after a failed Finalize the image depends on map order
	}
	env.OpDone()
	if pa != pa2 || pf != pf2 || (err == nil) != (err2 == nil) {
		return &sim.Violation{Oracle: "fragment_changed_by_append", Step: -1, Msg: fmt.Sprintf("first parent: Append panicked=%v Finalize panicked=%v err=%v; second parent: %v %v %v", pa, pf, err, pa2, pf2, err2)}
	}
	if err == nil && !pf && !pa {
		if d := snapEmitter(private).diff(snapEmitter(second), true); d != "" {
			return &sim.Violation{Oracle: "fragment_changed_by_append", Step: -1, Msg: "the two parents differ: " + d}
		}
	}
	return nil
}
