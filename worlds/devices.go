package worlds

import (
	"fmt"
	"verif/sim"
)

// SimMem is the simulator's memory device (seam S1; wrapped in closures for S2). It sees the
// full bus address, logs every access, yields to the scheduler before serving it, and
// answers from a sparse store over a deterministic fill pattern.
type SimMem struct {
	Env    *sim.Env
	ID     int
	ROM    bool // writes are dropped and counted
	Seed   uint64
	Mask   byte // fill values are ANDed with ^Mask (e.g. 0x80 keeps fill bytes below $80)
	Store  map[uint32]byte
	Log    []MemEvent
	NoLog  bool
	Reads  uint64
	Writes uint64
	Drops  uint64
	High   uint64 // accesses with addr >= 2^24 (observation only)
	SizeV  uint32 // what Size() reports: the device's own business, unrelated to where it is attached
	// Reenter, when set, runs at the start of every Read and Write: a device whose accesses
	// have side effects that go back to the bus it sits on (a mirror, a DMA trigger)
	Reenter func(addr uint32)
	// OnWrite, when set, runs at the start of every Write (a bank-switching register)
	OnWrite func(addr uint32, v byte)
	// Fault, when set, says at which addresses the device refuses access by panicking (an
	// unmapped region behind a caller-supplied memory): an injected fault
	Fault func(addr uint32) bool
}

// DeviceFault is what a faulting SimMem panics with.
type DeviceFault struct{ Addr uint32 }

func (d DeviceFault) Error() string {
	return fmt.Sprintf("simulated device: no memory at %06x", d.Addr)
}

type MemEvent struct {
	Dev   int
	Write bool
	Addr  uint32
	Val   byte
}

func NewSimMem(env *sim.Env, id int, seed uint64) *SimMem {
	return &SimMem{Env: env, ID: id, Seed: seed, Store: map[uint32]byte{}}
}

func (m *SimMem) Fill(addr uint32) byte {
	return byte(sim.Mix(m.Seed^uint64(addr)*0x9E3779B97F4A7C15)>>17) &^ m.Mask
}

func (m *SimMem) Peek(addr uint32) byte {
	if v, ok := m.Store[addr]; ok {
		return v
	}
	return m.Fill(addr)
}

func (m *SimMem) Poke(addr uint32, v byte) { m.Store[addr] = v }

func (m *SimMem) Read(addr uint32) byte {
	if m.Env != nil {
		m.Env.Yield("mem.read")
	}
	if m.Reenter != nil {
		m.Reenter(addr)
	}
	if m.Fault != nil && m.Fault(addr) {
		panic(DeviceFault{addr})
	}
	m.Reads++
	if addr >= 1<<24 {
		m.High++
	}
	v := m.Peek(addr)
	if !m.NoLog {
		m.Log = append(m.Log, MemEvent{m.ID, false, addr, v})
	}
	return v
}

func (m *SimMem) Write(addr uint32, v byte) {
	if m.Env != nil {
		m.Env.Yield("mem.write")
	}
	if m.Reenter != nil {
		m.Reenter(addr)
	}
	if m.OnWrite != nil {
		m.OnWrite(addr, v)
	}
	if m.Fault != nil && m.Fault(addr) {
		panic(DeviceFault{addr})
	}
	m.Writes++
	if addr >= 1<<24 {
		m.High++
	}
	if !m.NoLog {
		m.Log = append(m.Log, MemEvent{m.ID, true, addr, v})
	}
	if m.ROM {
		m.Drops++
		return
	}
	m.Store[addr] = v
}

func (m *SimMem) Shutdown()               {}
func (m *SimMem) Size() uint32            { return m.SizeV }
func (m *SimMem) Clear()                  {}
func (m *SimMem) Dump(addr uint32) []byte { return nil }
