package worlds

import (
	"bufio"
	"fmt"
	"io"
	"reflect"
	"unsafe"

	snes "github.com/alttpo/snes"

	"verif/sim"
)

// C10 — ROM bus readers/writers stay inside the addressed bank and obey io contracts.
// Seam S7: the io.Reader / io.Writer returned by ROM. The simulator is the client: it
// decides chunk sizes, which consumer slices the stream (raw, io.ReadFull, io.ReadAll,
// io.CopyN, bufio), how several readers and writers over overlapping windows interleave,
// and drives writers to, one before, and past the end of their window.
type c10 struct{}

func init() { sim.Register(c10{}) }

func (c10) ID() string     { return "C10" }
func (c10) Level() string  { return "exploration" }
func (c10) QuickRuns() int { return 60000 }
func (c10) Rule() string {
	return "each evaluation is one history of <=40 stream operations (open reader/writer at a bus address biased to $8000,$8001,$FFFD-$FFFF and below $8000; read/write with chunk lengths 0,1,remaining-1,remaining,remaining+1,remaining+3,32KiB,64KiB through raw calls, io.ReadFull, io.ReadAll, io.CopyN or bufio) over an image of 32KiB..1MiB (incl. odd sizes) or, one run in 25, 4MiB with banks biased to $7C-$7F, several streams alive at once, checked call by call against a private image copy with per-stream windows; distinct = distinct scenario hash; non-trivial = a transfer touched, reached or crossed the end of a window, or a low-half stream was used, or two windows overlapped"
}
func (c10) Assumptions() []string {
	return []string{
		"banks $00-$7F whose 32 KiB window lies inside the image (for banks >= $80 'that address's LoROM file offset' can be read with or without mirror folding, so they are not explored)",
		"a reader returns the image bytes as they are when Read is called, also when it was opened before a writer changed them ('data written through a writer is what a reader at the same address returns'); only a reader opened before the caller re-assigned ROM.Contents is not examined",
		"after a write that reported an error with count n, exactly p[:n] may have been stored at the write position (io.Writer contract); the stream position advances by n",
		"known finding D2 (window ends one byte early, pinned by a baseline test) is applied as a narrow model relaxation only while its witness still fails",
	}
}
func (c10) Components() map[string][]string {
	return map[string][]string{"real": {"snes.ROM BusReader/BusWriter, alwaysError, bytes.Reader underneath (instrumented copy)"}, "stub": {"the client side of the streams: chunking policies and io/bufio consumers driven by the scenario"}}
}

var c10Sizes = []int{0x8000, 0x10000, 0x10000, 0x18000 + 1, 0x20000, 0x28000 - 1, 0x40000, 0x100000, 0x8200, 0x10200, 0x20200}

func (c10) Gen(r *sim.Rand, tier string, run uint64) *sim.Scenario {
	sc := &sim.Scenario{Cfg: map[string]int64{}}
	size := c10Sizes[r.Intn(len(c10Sizes))]
	if tier != "thorough" && size > 0x40000 {
		size = 0x40000
	}
	big := r.Chance(1, 25)
	if big {
		size = 0x400000 // a 4 MiB image: every bank $00-$7F has its window inside it
	}
	sc.Cfg["imgsize"] = int64(size)
	if r.Chance(1, 6) {
		sc.Cfg["goodsum"] = 1 // the header checksum and its complement are correct, as in a real dump
	}
	if r.Chance(1, 6) {
		sc.Cfg["literal"] = 1 // the ROM object is a composite literal &snes.ROM{Contents: image}, not made by NewROM
	}
	if r.Chance(1, 8) {
		// the caller points the public HeaderOffset field somewhere else (a header it wants
		// parsed from the HiROM position, say): the bus streams are LoROM windows regardless
		sc.Cfg["hdroff"] = int64(sim.PickInt(r, 0xFFB0, 0xFFB0, 0x7FB0, 0x0001, 0x81B0, 0x40FFB0))
	}
	nb := size >> 15
	pickAddr := func() int64 {
		bank := r.Intn(nb)
		if big && r.Chance(2, 3) {
			bank = sim.PickInt(r, 0x7F, 0x7E, 0x7D, 0x7C, 0x70, 0x60, 0x40, 0x3F, 0x20)
		} else if r.Chance(1, 3) {
			bank = sim.PickInt(r, 0, 1, nb-1)
			if bank >= nb {
				bank = nb - 1
			}
		}
		if r.Chance(1, 12) && nb < 0x7D {
			bank = nb + r.Intn(3) // a bank behind the end of the image
		}
		var page int
		switch r.Intn(10) {
		case 0:
			page = 0x8000
		case 1:
			page = 0x8001
		case 2:
			page = 0xFFFD
		case 3:
			page = 0xFFFE
		case 4:
			page = 0xFFFF
		case 5:
			page = r.Intn(0x8000) // low half: always-error streams, whatever the bank
			bank = sim.PickInt(r, bank, r.Intn(256), 0x40, 0x7E, 0x80, 0xC0, 0xFF)
		case 6:
			page = 0xFFF0 + r.Intn(16)
		case 7:
			page = 0x7FFF
		default:
			page = 0x8000 + r.Intn(0x8000)
		}
		return int64(bank<<16 | page)
	}
	n := r.Range(2, 40)
	type stream struct {
		w      bool
		remain int
		low    bool
	}
	var streams []stream
	var ops []sim.Op
	// a pool of 1-3 addresses so that windows overlap
	pool := []int64{pickAddr()}
	for i := 0; i < r.Intn(3); i++ {
		if r.Chance(1, 2) {
			a := pool[0]
			d := int64(r.Range(-6, 6))
			if (a&0xFFFF)+d >= 0x8000 && (a&0xFFFF)+d <= 0xFFFF {
				a += d
			}
			pool = append(pool, a)
		} else {
			pool = append(pool, pickAddr())
		}
	}
	for len(ops) < n {
		if len(streams) == 0 || (len(streams) < 6 && r.Chance(1, 4)) {
			a := pool[r.Intn(len(pool))]
			isW := r.Chance(1, 2)
			k := "open_r"
			if isW {
				k = "open_w"
			}
			ops = append(ops, sim.Op{K: k, N: []int64{int64(len(streams)), a}})
			page := int(a & 0xFFFF)
			streams = append(streams, stream{w: isW, remain: 0x10000 - page, low: page < 0x8000})
			continue
		}
		if r.Chance(1, 30) {
			// the caller re-assigns ROM.Contents (same bytes in a new array, e.g. after growing
			// the image): writers opened earlier must still store into the live image
			ops = append(ops, sim.Op{K: "realloc"})
			continue
		}
		id := r.Intn(len(streams))
		s := &streams[id]
		rem := s.remain
		if s.low {
			rem = 16
		}
		lens := []int{0, 1, rem - 2, rem - 1, rem, rem + 1, rem + 3, 0x8000, 0x10000, r.Intn(64), r.Intn(rem + 2)}
		l := lens[r.Intn(len(lens))]
		if l < 0 {
			l = 0
		}
		if s.w {
			client := sim.PickInt(r, 0, 0, 0, 1, 1, 2, 3) // raw, bufio, io.Copy into the library's writer, source aliasing the image
			if r.Chance(1, 8) {
				client = 4 // whatever else the writer offers: io.WriterAt, io.StringWriter, io.ByteWriter
			} else if r.Chance(1, 8) {
				client = 5 // the same bytes the image already holds at that place
			}
			waux := int64(sim.PickInt(r, 0, 1, -1, -17, rem-l, rem-l+1, rem, -rem, r.Intn(rem+2)))
			ops = append(ops, sim.Op{K: "write", N: []int64{int64(id), int64(client), waux, int64(r.Intn(3))}, B: r.Bytes(l)})
		} else {
			// clients 0-5 consume through Read; 6-9 use the optional interfaces the returned
			// reader may offer (io.Seeker, io.ReaderAt, io.ByteScanner, io.WriterTo into a sink
			// that fails part-way): third value = an offset / fault position for those
			client := r.Intn(6)
			if r.Chance(1, 4) {
				client = 6 + r.Intn(6)
			}
			aux := int64(sim.PickInt(r, 0, 0, 1, -1, 2, l, -l, rem, rem+1, -rem, r.Intn(rem+2)))
			ops = append(ops, sim.Op{K: "read", N: []int64{int64(id), int64(l), int64(client), aux, int64(r.Intn(3))}})
		}
		if !s.low && l <= s.remain {
			s.remain -= l
		}
	}
	sc.Ops = ops
	return sc
}

type c10stream struct {
	isW        bool
	low        bool
	skip       bool // precondition of the property not met: not examined
	start, end int
	pos        int
	snapshot   []byte // window content at creation (readers)
	eofSeen    bool
	r          io.Reader
	w          io.Writer
	br         *bufio.Reader
	bw         *bufio.Writer
}

type c10world struct {
	env   *sim.Env
	st    *sim.Stats
	rom   *snes.ROM
	img   []byte // the image the library works on
	model []byte // private copy
	relax bool   // D2
	step  int
	viol  *sim.Violation
}

func (w *c10world) fail(oracle, f string, a ...interface{}) {
	if w.viol == nil {
		w.viol = &sim.Violation{Oracle: oracle, Step: w.step, Msg: fmt.Sprintf(f, a...)}
	}
}

// checkedReader applies the raw io.Reader oracle to every underlying Read call, whoever
// the consumer is.
type checkedReader struct {
	w *c10world
	s *c10stream
}

func (c checkedReader) Read(p []byte) (int, error) {
	w, s := c.w, c.s
	w.env.Yield("stream.read")
	pre := append([]byte{}, p...)
	var n int
	var err error
	panicked, pv := sim.RecoverLib(func() { n, err = s.r.Read(p) })
	w.st.SimOps++
	if panicked {
		w.fail("read_panic", "Read(%d bytes) at window offset %d panicked: %s", len(p), s.pos-s.start, sim.PanicString(pv))
		return 0, io.ErrClosedPipe
	}
	w.env.ObsInt(n)
	w.env.ObsErr(err)
	if n >= 0 && n <= len(p) {
		w.env.ObsBytes(p[:n])
	}
	if s.low {
		if n != 0 || err != io.ErrUnexpectedEOF {
			w.fail("low_half_read", "Read on a stream below $8000 returned (%d, %v), want (0, unexpected EOF)", n, err)
		}
		if string(pre) != string(p) {
			w.fail("low_half_read", "Read on a stream below $8000 modified the caller's buffer")
		}
		return n, err
	}
	if n < 0 || n > len(p) {
		w.fail("read_count", "Read(%d bytes) returned n=%d", len(p), n)
		return 0, io.ErrClosedPipe
	}
	if s.pos+n > s.end {
		w.fail("read_beyond_window", "reader at file offset %#x delivered %d bytes: %d beyond the end of its bank window (%#x)", s.pos, n, s.pos+n-s.end, s.end)
		return n, err
	}
	for i := 0; i < n; i++ {
		cur := w.model[s.pos+i]
		old := s.snapshot[s.pos+i-s.start]
		if p[i] != cur {
			what := "neither the image byte now nor the one at reader creation"
			if p[i] == old {
				what = "the byte the image held when the reader was created, before a writer changed it"
			}
			w.fail("read_data", "reader delivered %02x for file offset %#x, image holds %02x (at reader creation %02x): %s", p[i], s.pos+i, cur, old, what)
			break
		}
	}
	if string(p[n:]) != string(pre[n:]) {
		w.fail("read_scribble", "Read wrote to the caller's buffer beyond the %d bytes it reported", n)
	}
	s.pos += n
	switch {
	case err == io.EOF:
		if s.pos != s.end {
			missing := s.end - s.pos
			w.fail("reader_total", "reader reported EOF %d byte(s) before the end of its bank window (file offset %#x, window ends %#x)", missing, s.pos, s.end)
			if w.viol != nil && w.viol.Oracle == "reader_total" {
				w.viol.Sig = map[string]string{"missing": fmt.Sprint(missing), "offset_mod_8000": fmt.Sprintf("%#x", s.pos&0x7FFF)}
			}
		}
		s.eofSeen = true
		w.st.Probe("reader_eof")
	case err == nil:
		if n == 0 && len(p) > 0 {
			w.fail("read_no_progress", "Read(%d bytes) returned (0, nil) at window offset %d of %d", len(p), s.pos-s.start, s.end-s.start)
			return 0, io.ErrNoProgress
		}
		if s.eofSeen && len(p) > 0 {
			w.fail("read_after_eof", "Read after EOF returned data (%d bytes)", n)
		}
	default:
		w.fail("read_error", "Read returned unexpected error %v", err)
	}
	if n > 0 && s.pos == s.end {
		w.st.Probe("read_reaches_window_end")
		w.st.MarkNontrivial()
	}
	if len(p) > n && err == nil && s.pos == s.end && n > 0 {
		w.st.Probe("read_chunk_straddles_end")
	}
	return n, err
}

type checkedWriter struct {
	w *c10world
	s *c10stream
}

func (c checkedWriter) Write(p []byte) (int, error) {
	w, s := c.w, c.s
	w.env.Yield("stream.write")
	pcopy := append([]byte{}, p...)
	var n int
	var err error
	panicked, pv := sim.RecoverLib(func() { n, err = s.w.Write(p) })
	w.st.SimOps++
	if panicked {
		w.fail("write_panic", "Write(%d bytes) at window offset %d panicked: %s", len(p), s.pos-s.start, sim.PanicString(pv))
		return 0, io.ErrClosedPipe
	}
	w.env.ObsInt(n)
	w.env.ObsErr(err)
	if string(pcopy) != string(p) && !aliasesImage(p, w.img) {
		w.fail("write_modified_input", "Write modified the caller's slice")
	}
	if s.low {
		if n != 0 || err != io.ErrUnexpectedEOF {
			w.fail("low_half_write", "Write on a stream below $8000 returned (%d, %v), want (0, unexpected EOF)", n, err)
		}
		w.compareImage("low-half write")
		if err == nil {
			return 0, io.ErrShortWrite // recorded above; do not let bufio spin on (0, nil)
		}
		return n, err
	}
	if n < 0 || n > len(p) {
		w.fail("write_count", "Write(%d bytes) returned n=%d", len(p), n)
		return 0, io.ErrClosedPipe
	}
	fits := s.pos+len(p) <= s.end
	room := s.end - s.pos
	switch {
	case len(p) == room:
		w.st.Probe("write_ends_exactly_at_end")
		w.st.MarkNontrivial()
	case len(p) == room+1:
		w.st.Probe("write_one_past")
		w.st.MarkNontrivial()
	case len(p) > room:
		w.st.Probe("write_beyond")
		w.st.MarkNontrivial()
	}
	if room == 0 && len(p) > 0 {
		w.st.Probe("write_after_full")
	}
	if err == nil {
		if n != len(p) {
			w.fail("silent_partial_write", "Write(%d bytes) at window offset %d (room %d) returned (%d, nil): a silent partial write", len(p), s.pos-s.start, room, n)
			n = clampInt(n, 0, room)
		} else if !fits {
			w.fail("write_beyond_window", "Write(%d bytes) with only %d bytes of room returned (%d, nil)", len(p), room, n)
			n = clampInt(n, 0, room)
		}
	} else {
		if fits {
			w.fail("write_spurious_error", "Write(%d bytes) at window offset %d fits (room %d) but returned (%d, %v)", len(p), s.pos-s.start, room, n, err)
		} else {
			w.st.Fault("write_refused")
		}
		if n > room {
			w.fail("write_beyond_window", "failed Write reported %d bytes stored with only %d bytes of room", n, room)
			n = room
		}
	}
	copy(w.model[s.pos:s.pos+n], pcopy[:n])
	s.pos += n
	w.compareImage(fmt.Sprintf("Write(%d bytes) -> (%d, %v)", len(p), n, err))
	if err == nil && n != len(p) {
		// the violation is recorded; consumers such as bufio.Writer trust the io.Writer
		// contract and would loop forever on (0, nil)
		return n, io.ErrShortWrite
	}
	return n, err
}

// optionalWriterOp: what the writer offers besides Write. Offsets of io.WriterAt are relative
// to the window; a store outside it, before its first byte included, must be refused whole.
func (w *c10world) optionalWriterOp(s *c10stream, p []byte, off int64, which int) {
	st, env := w.st, w.env
	winLen := int64(s.end - s.start)
	switch x := s.w.(type) {
	case io.WriterAt:
		if which != 0 {
			break
		}
		var n int
		var err error
		if pn, pv := sim.RecoverLib(func() { n, err = x.WriteAt(p, off) }); pn {
			w.fail("write_panic", "WriteAt(%d bytes, %d) panicked: %s", len(p), off, sim.PanicString(pv))
			return
		}
		st.SimOps++
		env.ObsInt(n)
		env.ObsBool(err != nil)
		st.Probe("writer_writeat")
		fits := off >= 0 && off+int64(len(p)) <= winLen
		switch {
		case fits && (err != nil || n != len(p)):
			w.fail("write_spurious_error", "WriteAt(%d bytes, offset %d) lies inside the window of %d bytes but returned (%d, %v)", len(p), off, winLen, n, err)
		case !fits && err == nil && len(p) > 0:
			w.fail("write_beyond_window", "WriteAt(%d bytes, offset %d) on a window of %d bytes returned (%d, nil): it reaches outside the window", len(p), off, winLen, n)
		case !fits && n != 0:
			w.fail("silent_partial_write", "WriteAt(%d bytes, offset %d) on a window of %d bytes was refused (%v) but reports %d bytes stored", len(p), off, winLen, err, n)
		}
		if fits && err == nil {
			copy(w.model[s.start+int(off):], p)
		}
		w.compareImage(fmt.Sprintf("WriteAt(%d bytes, offset %d) -> (%d, %v)", len(p), off, n, err))
		st.MarkNontrivial()
		return
	}
	// the sequential extras behave like Write of the same bytes
	cw := checkedWriter{w, s}
	room := s.end - s.pos
	switch x := s.w.(type) {
	case io.StringWriter:
		if which == 1 {
			st.Probe("writer_writestring")
			var n int
			var err error
			if pn, pv := sim.RecoverLib(func() { n, err = x.WriteString(string(p)) }); pn {
				w.fail("write_panic", "WriteString panicked: %s", sim.PanicString(pv))
				return
			}
			w.afterSequentialWrite(s, p, n, err, room, "WriteString")
			return
		}
	}
	if bw, ok := s.w.(io.ByteWriter); ok && which == 2 && len(p) > 0 {
		st.Probe("writer_writebyte")
		var err error
		if pn, pv := sim.RecoverLib(func() { err = bw.WriteByte(p[0]) }); pn {
			w.fail("write_panic", "WriteByte panicked: %s", sim.PanicString(pv))
			return
		}
		n := 1
		if err != nil {
			n = 0
		}
		w.afterSequentialWrite(s, p[:1], n, err, room, "WriteByte")
		return
	}
	_, _ = cw.Write(p)
}

// afterSequentialWrite applies the Write oracle to a call that came in through another
// sequential method of the writer.
func (w *c10world) afterSequentialWrite(s *c10stream, p []byte, n int, err error, room int, what string) {
	w.st.SimOps++
	w.env.ObsInt(n)
	w.env.ObsBool(err != nil)
	fits := len(p) <= room
	switch {
	case n < 0 || n > len(p):
		w.fail("write_count", "%s(%d bytes) returned n=%d", what, len(p), n)
		return
	case err == nil && n != len(p):
		w.fail("silent_partial_write", "%s(%d bytes) with %d bytes of room returned (%d, nil)", what, len(p), room, n)
	case err == nil && !fits:
		w.fail("write_beyond_window", "%s(%d bytes) with only %d bytes of room returned (%d, nil)", what, len(p), room, n)
	case err != nil && fits:
		w.fail("write_spurious_error", "%s(%d bytes) fits (room %d) but returned (%d, %v)", what, len(p), room, n, err)
	}
	if n > room {
		n = room
	}
	copy(w.model[s.pos:s.pos+n], p[:n])
	s.pos += n
	w.compareImage(fmt.Sprintf("%s(%d bytes) -> (%d, %v)", what, len(p), n, err))
}

// optionalReaderOp drives one of the optional interfaces the library's reader may implement
// (bytes.Reader has them all). Their io contracts are relative to the stream, which is the
// bank window: no offset may lead before its first byte or deliver a byte beyond its end.
func (w *c10world) optionalReaderOp(s *c10stream, client, l int, aux int64, whence int) {
	st, env := w.st, w.env
	winLen := int64(s.end - s.start)
	cur := int64(s.pos - s.start)
	switch client {
	case 6:
		sk, ok := s.r.(io.Seeker)
		if !ok {
			return
		}
		var want int64
		switch whence {
		case io.SeekStart:
			want = aux
		case io.SeekCurrent:
			want = cur + aux
		default:
			whence = io.SeekEnd
			want = winLen + aux
		}
		var abs int64
		var err error
		if p, pv := sim.RecoverLib(func() { abs, err = sk.Seek(aux, whence) }); p {
			w.fail("read_panic", "Seek(%d, %d) panicked: %s", aux, whence, sim.PanicString(pv))
			return
		}
		st.SimOps++
		env.ObsInt(int(abs))
		env.ObsBool(err != nil)
		st.Probe("reader_seek")
		if err != nil {
			return // a reader may refuse to seek; its position is then unchanged
		}
		if want < 0 {
			w.fail("read_before_window", "Seek(%d, whence %d) from window offset %d of %d leads before the first byte of the window but succeeded (returned %d)", aux, whence, cur, winLen, abs)
			return
		}
		if abs != want {
			w.fail("seek_position", "Seek(%d, whence %d) from window offset %d of %d returned %d, want %d (offsets are relative to the bank window)", aux, whence, cur, winLen, abs, want)
			return
		}
		if want > winLen {
			// beyond the end: legal, reads there give EOF. Park the reader at the end of its
			// window so that the model's position stays inside it.
			st.Probe("reader_seek_past_end")
			buf := make([]byte, 1)
			var n int
			var rerr error
			sim.RecoverLib(func() { n, rerr = s.r.Read(buf) })
			if n != 0 || rerr != io.EOF {
				w.fail("read_beyond_window", "Read after Seek to window offset %d of %d returned (%d, %v), want (0, EOF)", want, winLen, n, rerr)
				return
			}
			want = winLen
			sim.RecoverLib(func() { _, err = sk.Seek(winLen, io.SeekStart) })
			if err != nil {
				s.skip = true
				return
			}
		}
		s.pos = s.start + int(want)
		s.eofSeen = false
		st.MarkNontrivial()
	case 7:
		ra, ok := s.r.(io.ReaderAt)
		if !ok {
			return
		}
		if l > 4096 {
			l = 4096
		}
		buf := make([]byte, l)
		var n int
		var err error
		if p, pv := sim.RecoverLib(func() { n, err = ra.ReadAt(buf, aux) }); p {
			w.fail("read_panic", "ReadAt(%d bytes, %d) panicked: %s", l, aux, sim.PanicString(pv))
			return
		}
		st.SimOps++
		env.ObsInt(n)
		env.ObsBool(err != nil)
		st.Probe("reader_readat")
		if aux < 0 {
			if err == nil || n != 0 {
				w.fail("read_before_window", "ReadAt(%d bytes, offset %d) returned (%d, %v): a negative offset lies before the window", l, aux, n, err)
			}
			return
		}
		want := 0
		if aux < winLen {
			want = int(winLen - aux)
			if want > l {
				want = l
			}
		}
		if n != want || (n < l && err == nil) {
			w.fail("readat_result", "ReadAt(%d bytes, offset %d) on a window of %d bytes returned (%d, %v), want %d bytes%s", l, aux, winLen, n, err, want, map[bool]string{true: " and an error", false: ""}[want < l])
			return
		}
		for i := 0; i < n; i++ {
			if buf[i] != w.model[s.start+int(aux)+i] {
				w.fail("read_data", "ReadAt(offset %d) delivered %02x at window offset %d, image holds %02x at file offset %#x", aux, buf[i], int(aux)+i, w.model[s.start+int(aux)+i], s.start+int(aux)+i)
				return
			}
		}
		if n > 0 && int(aux)+n == int(winLen) {
			st.MarkNontrivial()
		}
	case 8:
		bs, ok := s.r.(io.ByteScanner)
		if !ok {
			return
		}
		var err error
		if p, pv := sim.RecoverLib(func() { err = bs.UnreadByte() }); p {
			w.fail("read_panic", "UnreadByte panicked: %s", sim.PanicString(pv))
			return
		}
		st.SimOps++
		env.ObsBool(err != nil)
		st.Probe("reader_unreadbyte")
		if err != nil {
			return
		}
		if s.pos <= s.start {
			w.fail("read_before_window", "UnreadByte at the first byte of the window succeeded: the next read would deliver file offset %#x, below the window", s.start-1)
			return
		}
		s.pos--
		s.eofSeen = false
		// and the byte comes again
		var b byte
		if p, _ := sim.RecoverLib(func() { b, err = bs.ReadByte() }); p || err != nil || b != w.model[s.pos] {
			w.fail("read_data", "ReadByte after UnreadByte at file offset %#x: (%02x, %v), image holds %02x", s.pos, b, err, w.model[s.pos])
			return
		}
		s.pos++
	case 10:
		// an object handed out for reading must not be a way to change the image outside its window
		did := false
		payload := []byte{byte(aux), byte(aux >> 8), 0x5A}
		sim.RecoverLib(func() {
			switch x := s.r.(type) {
			case io.Writer:
				_, _ = x.Write(payload)
				did = true
			case io.StringWriter:
				_, _ = x.WriteString(string(payload))
				did = true
			case io.ByteWriter:
				_ = x.WriteByte(payload[0])
				did = true
			case io.ReaderFrom:
				_, _ = x.ReadFrom(&plainReader{data: payload})
				did = true
			}
		})
		if did {
			st.SimOps++
			st.Probe("reader_offers_a_write_method")
			// inside its own window the object may store what it was given (the property fixes
			// what a reader delivers and that nothing outside the window is touched, not that a
			// reader is read-only): the model adopts the window, the rest is compared
			bankEnd := (s.start>>15 + 1) << 15
			if s.start >= 0 && bankEnd <= len(w.model) && bankEnd <= len(w.img) {
				copy(w.model[s.start:bankEnd], w.img[s.start:bankEnd])
			}
			w.compareImage("a write through the object returned by BusReader")
			s.skip = true // where its cursor is after that call is its own business: not read any more
		}
	case 11:
		// slices the reader hands out (bytes.Buffer-like Bytes/Next/Peek) must lie inside the
		// window, capacity included: re-slicing must not reach other bytes of the image
		rv := reflect.ValueOf(s.r)
		for _, name := range []string{"Bytes", "Next", "Peek"} {
			m := rv.MethodByName(name)
			if !m.IsValid() {
				continue
			}
			mt := m.Type()
			var args []reflect.Value
			switch {
			case mt.NumIn() == 0:
			case mt.NumIn() == 1 && mt.In(0).Kind() == reflect.Int:
				args = []reflect.Value{reflect.ValueOf(0)}
			default:
				continue
			}
			if mt.NumOut() < 1 || mt.Out(0) != reflect.TypeOf([]byte(nil)) {
				continue
			}
			var out []reflect.Value
			if p, _ := sim.RecoverLib(func() { out = m.Call(args) }); p || len(out) == 0 {
				continue
			}
			b := out[0].Bytes()
			st.Probe("reader_hands_out_slices")
			if cap(b) == 0 || len(w.img) == 0 {
				continue
			}
			full := b[:cap(b)]
			lo, base := uintptr(unsafe.Pointer(&full[0])), uintptr(unsafe.Pointer(&w.img[0]))
			if lo < base || lo >= base+uintptr(len(w.img)) {
				continue // a private copy
			}
			off := int(lo - base)
			if off < s.start || off+cap(b) > s.end {
				w.fail("slice_beyond_window", "%s() of the reader returns a slice of the image at file offset %#x with capacity %d: re-slicing it reaches bytes outside the window [%#x,%#x)", name, off, cap(b), s.start, s.end)
				return
			}
		}
	case 9:
		wt, ok := s.r.(io.WriterTo)
		if !ok {
			return
		}
		remaining := s.end - s.pos
		k := int(aux)
		if k < 0 {
			k = -k
		}
		dst := &limitedSink{room: k}
		var n int64
		var err error
		if p, pv := sim.RecoverLib(func() { n, err = wt.WriteTo(dst) }); p {
			w.fail("read_panic", "WriteTo panicked: %s", sim.PanicString(pv))
			return
		}
		st.SimOps++
		env.ObsInt(int(n))
		env.ObsBool(err != nil)
		env.ObsBytes(dst.b)
		st.Probe("reader_writeto_faulty_sink")
		if dst.refused {
			st.Fault("destination_refused")
			env.FaultYield("op")
		}
		if len(dst.b) > remaining || int(n) != len(dst.b) {
			w.fail("writeto_result", "WriteTo with %d bytes left into a destination that took %d bytes reported %d bytes", remaining, len(dst.b), n)
			return
		}
		for i, bb := range dst.b {
			if bb != w.model[s.pos+i] {
				w.fail("read_data", "WriteTo delivered %02x for file offset %#x, image holds %02x", bb, s.pos+i, w.model[s.pos+i])
				return
			}
		}
		if !dst.refused && (len(dst.b) != remaining || err != nil) {
			w.fail("reader_total", "WriteTo into a willing destination delivered %d of %d bytes, err %v", len(dst.b), remaining, err)
			return
		}
		if dst.refused && err == nil {
			w.fail("writeto_result", "WriteTo: the destination failed after %d bytes but WriteTo reported no error", len(dst.b))
			return
		}
		// the bytes the destination did not take are still to come: the position advances by
		// what was delivered (checked by the following reads and the end-of-window accounting)
		s.pos += len(dst.b)
		if s.pos == s.end && !dst.refused {
			s.eofSeen = true
		}
		st.MarkNontrivial()
	}
}

// limitedSink accepts room bytes in all, then fails (a short write with an error).
type limitedSink struct {
	room    int
	b       []byte
	refused bool
}

func (d *limitedSink) Write(p []byte) (int, error) {
	if len(p) <= d.room {
		d.b = append(d.b, p...)
		d.room -= len(p)
		return len(p), nil
	}
	n := d.room
	d.b = append(d.b, p[:n]...)
	d.room = 0
	d.refused = true
	return n, sim.ErrSink
}

// plainReader is a source without io.WriterTo, so that io.Copy has to ask the destination.
type plainReader struct {
	data []byte
	off  int
}

func (p *plainReader) Read(b []byte) (int, error) {
	if p.off >= len(p.data) {
		return 0, io.EOF
	}
	n := copy(b, p.data[p.off:])
	p.off += n
	return n, nil
}

// bytesSink is a destination without io.ReaderFrom.
type bytesSink struct{ b []byte }

func (s *bytesSink) Write(p []byte) (int, error) { s.b = append(s.b, p...); return len(p), nil }

// aliasesImage: is p a slice of the image itself (then the write legitimately changes it)?
func aliasesImage(p, img []byte) bool {
	if len(p) == 0 || len(img) == 0 {
		return false
	}
	a, lo, hi := uintptr(unsafe.Pointer(&p[0])), uintptr(unsafe.Pointer(&img[0])), uintptr(unsafe.Pointer(&img[len(img)-1]))
	return a >= lo && a <= hi
}

func clampInt(v, lo, hi int) int {
	if v < lo {
		return lo
	}
	if v > hi {
		return hi
	}
	return v
}

func (w *c10world) compareImage(what string) {
	if len(w.img) != len(w.model) || string(w.img) != string(w.model) {
		i := firstDiff(w.img, w.model)
		w.fail("image_mismatch", "after %s the image differs from the model at file offset %#x: image %02x, model %02x", what, i, at(w.img, i), at(w.model, i))
		// resynchronise so that shrinking keeps one class
		copy(w.model, w.img)
	}
}

func at(b []byte, i int) byte {
	if i >= 0 && i < len(b) {
		return b[i]
	}
	return 0
}

func (c c10) Exec(sc *sim.Scenario, env *sim.Env) (viol *sim.Violation) {
	sim.Activate(env)
	defer sim.Deactivate()
	defer func() {
		// a consumer (bufio, io.ReadAll) spinning on a stream that makes no progress trips
		// the yield watchdog inside the checked stream: that is a finding, not a harness fault
		if r := recover(); r != nil {
			if wd, ok := r.(sim.WatchdogAbort); ok {
				viol = &sim.Violation{Oracle: "stream_livelock", Step: -1, Msg: "a stream consumer made no progress: " + wd.Error()}
				return
			}
			panic(r)
		}
	}()
	st := env.Stats
	size := int(sc.C("imgsize"))
	if size < 0x8000 {
		size = 0x8000
	}
	if size > 0x400000 {
		size = 0x400000
	}
	env.SetWatchdog(uint64(len(sc.Ops)+4) * (200000 + 4*uint64(size))) // generous (a pass over the whole image per call is fine): only a consumer that spins for ever may trip it
	w := &c10world{env: env, st: st, relax: env.Relax["D2"]}
	if size > 0x100000 {
		// large image: one random 64 KiB block, varied per 32 KiB bank
		blk := sim.ForkSeed(sc.Seed, "image").Bytes(0x10000)
		w.img = make([]byte, size)
		for i := range w.img {
			w.img[i] = blk[i&0xFFFF] ^ byte(i>>15) ^ byte(i>>23)
		}
		st.Probe("image_4MiB")
	} else {
		w.img = sim.ForkSeed(sc.Seed, "image").Bytes(size)
	}
	// a plausible header area so that NewROM accepts the image
	hr := sim.ForkSeed(sc.Seed, "header")
	for i := 0x7FB0; i < 0x8000 && i < size; i++ {
		w.img[i] = byte(hr.Intn(256))
	}
	if size > 0x7FD8 {
		w.img[0x7FD5] = byte(sim.PickInt(hr, 0x20, 0x21, 0x23, 0x25, 0x30, 0x31, 0x35, hr.Intn(256))) // map mode
		w.img[0x7FD7] = byte(hr.Intn(14))                                                             // ROM size
		w.img[0x7FD8] = byte(hr.Intn(9))                                                              // RAM size
	}
	if sc.C("goodsum") != 0 && size >= 0x8000 {
		copy(w.img[0x7FDC:0x7FE0], []byte{0xFF, 0xFF, 0x00, 0x00})
		sum := uint32(0)
		for _, b := range w.img {
			sum += uint32(b)
		}
		chk := uint16(sum)
		w.img[0x7FDC], w.img[0x7FDD] = byte(^chk), byte(^chk>>8)
		w.img[0x7FDE], w.img[0x7FDF] = byte(chk), byte(chk>>8)
		st.Probe("image_with_correct_checksum")
	}
	w.model = append([]byte{}, w.img...)
	name := "sim"
	if sc.Seed&4 != 0 {
		name = "" // a legal argument too
	}
	rom, err := snes.NewROM(name, w.img)
	if err != nil || rom == nil || sc.C("literal") != 0 {
		rom = &snes.ROM{Name: name, Contents: w.img}
		st.ProbeIf(sc.C("literal") != 0, "rom_is_a_composite_literal")
	}
	env.ObsStr(rom.Name)
	if h := sc.C("hdroff"); h != 0 {
		rom.HeaderOffset = uint32(h)
		st.Probe("header_offset_field_changed")
	}
	w.rom = rom
	streams := map[int64]*c10stream{}
	nb := size >> 15
	type win struct{ s, e int }
	var windows []win

	for i, op := range sc.Ops {
		w.step = i
		switch op.K {
		case "realloc":
			fresh := append([]byte{}, rom.Contents...)
			rom.Contents = fresh
			w.img = fresh
			for _, id := range sortedKeys(streams) {
				if s := streams[id]; !s.isW {
					s.skip = true // what a reader opened before the re-assignment sees is not defined
				}
			}
			st.Probe("contents_reassigned")
			continue
		case "grow":
			k := int(op.Arg(0))
			if k < 1 || k > 2 || len(w.img) > 0x380000 {
				continue
			}
			extra := sim.NewRand(uint64(op.Arg(1)) + 1).Bytes(k << 15)
			rom.Contents = append(rom.Contents, extra...)
			w.img = rom.Contents
			w.model = append(w.model, extra...)
			nb = len(w.img) >> 15
			for _, id := range sortedKeys(streams) {
				if s := streams[id]; !s.isW {
					s.skip = true // append may have moved the array: what an older reader sees is not defined
				}
			}
			st.Probe("image_grown")
			continue
		case "open_r", "open_w":
			id, addr := op.Arg(0), uint32(op.Arg(1))&0xFFFFFF
			bank, page := int(addr>>16), int(addr&0xFFFF)
			s := &c10stream{isW: op.K == "open_w", low: page < 0x8000}
			if (!s.low && (bank > 0x7F || bank >= nb)) || (s.low && bank > 0xFF) {
				s.skip = true
				streams[id] = s
				if !s.low && !s.isW && bank <= 0x7F {
					// a bank behind the end of the image: what such a stream delivers (or whether
					// opening it panics) is not asked. It is opened and read once all the same,
					// so that whatever the library does there happens under C18's eyes
					sim.RecoverLib(func() {
						if r := rom.BusReader(addr); r != nil {
							_, _ = r.Read(make([]byte, 1+int(addr&63)))
						}
					})
					st.Probe("reader_behind_image_end")
					w.compareImage("open")
				}
				continue
			}
			if !s.low {
				s.start = bank<<15 + (page - 0x8000)
				s.end = (bank + 1) << 15
				if w.relax {
					s.end-- // known finding D2: window ends one byte early
					if s.start > s.end {
						s.skip = true // $xx:FFFF under D2: the library slices [start:end] with start>end
						streams[id] = s
						st.Known["D2_skipped_open_at_FFFF"]++
						continue
					}
				}
				s.pos = s.start
				s.snapshot = append([]byte{}, w.model[s.start:s.end]...)
				for _, o := range windows {
					if s.start < o.e && o.s < s.end {
						st.Probe("two_windows_overlap")
						st.MarkNontrivial()
						break
					}
				}
				windows = append(windows, win{s.start, s.end})
			} else {
				st.Probe("low_half")
				st.MarkNontrivial()
			}
			panicked, pv := sim.RecoverLib(func() {
				if s.isW {
					s.w = rom.BusWriter(addr)
				} else {
					s.r = rom.BusReader(addr)
				}
			})
			if panicked {
				w.fail("open_panic", "opening a stream at %06x panicked: %s", addr, sim.PanicString(pv))
				break
			}
			streams[id] = s
			w.compareImage("open")
		case "read":
			s := streams[op.Arg(0)]
			if s == nil || s.skip || s.isW {
				continue
			}
			l := int(op.Arg(1))
			if l < 0 {
				l = 0
			}
			if l > 0x10000 {
				l = 0x10000
			}
			cr := checkedReader{w, s}
			posBefore := s.pos
			remaining := s.end - s.pos
			switch op.Arg(2) {
			case 1: // io.ReadFull
				buf := make([]byte, l)
				n, err := io.ReadFull(cr, buf)
				if w.viol == nil && !s.low {
					want := l
					if want > remaining {
						want = remaining
					}
					var wantErr error
					if l > remaining {
						wantErr = io.ErrUnexpectedEOF
						if remaining == 0 {
							wantErr = io.EOF
						}
					}
					if n != want || err != wantErr {
						w.fail("readfull_result", "io.ReadFull(%d) with %d bytes left returned (%d, %v), want (%d, %v)", l, remaining, n, err, want, wantErr)
					}
				}
				st.Probe("client_readfull")
			case 2: // io.ReadAll
				b, err := io.ReadAll(cr)
				if w.viol == nil && !s.low && (len(b) != remaining || err != nil) {
					w.fail("readall_result", "io.ReadAll with %d bytes left returned %d bytes, err %v", remaining, len(b), err)
				}
				if w.viol == nil && !s.low && s.pos != s.end {
					w.fail("reader_total", "io.ReadAll stopped %d byte(s) before the end of the window", s.end-s.pos)
				}
				st.Probe("client_readall")
			case 3: // io.CopyN into a discard
				n, err := io.CopyN(io.Discard, cr, int64(l))
				if w.viol == nil && !s.low {
					want := l
					if want > remaining {
						want = remaining
					}
					if int(n) != want || (l <= remaining && err != nil) || (l > remaining && err != io.EOF) {
						w.fail("copyn_result", "io.CopyN(%d) with %d bytes left returned (%d, %v)", l, remaining, n, err)
					}
				}
				st.Probe("client_copyn")
			case 4: // bufio.Reader kept per stream (reads ahead)
				if s.br == nil {
					s.br = bufio.NewReaderSize(cr, 64)
				}
				buf := make([]byte, l)
				_, _ = io.ReadFull(s.br, buf)
				st.Probe("client_bufio_reader")
			case 5: // io.Copy straight from the library's reader (uses its io.WriterTo if it has one)
				var dst bytesSink
				var n int64
				var err error
				p, pv := sim.RecoverLib(func() { n, err = io.Copy(&dst, s.r) })
				st.SimOps++
				env.ObsInt(int(n))
				env.ObsBytes(dst.b)
				st.Probe("client_iocopy_reader")
				if p {
					w.fail("read_panic", "io.Copy from the reader panicked: %s", sim.PanicString(pv))
				} else if s.low {
					if n != 0 || err != io.ErrUnexpectedEOF {
						w.fail("low_half_read", "io.Copy from a stream below $8000 returned (%d, %v), want (0, unexpected EOF)", n, err)
					}
				} else {
					if err != nil || int(n) != remaining || len(dst.b) != remaining {
						w.fail("reader_total", "io.Copy from a reader with %d bytes left delivered %d bytes, err %v", remaining, n, err)
					} else {
						for i2, bb := range dst.b {
							if bb != w.model[s.pos+i2] {
								w.fail("read_data", "io.Copy delivered %02x for file offset %#x, image holds %02x", bb, s.pos+i2, w.model[s.pos+i2])
								break
							}
						}
						s.pos = s.end
						s.eofSeen = true
					}
				}
			case 6, 7, 8, 9, 10, 11:
				if s.low {
					buf := make([]byte, l)
					_, _ = cr.Read(buf)
					break
				}
				w.optionalReaderOp(s, int(op.Arg(2)), l, op.Arg(3), int(op.Arg(4)))
			default:
				buf := make([]byte, l)
				_, _ = cr.Read(buf)
				st.Probe("client_raw_read")
			}
			_ = posBefore
		case "write":
			s := streams[op.Arg(0)]
			if s == nil || s.skip || !s.isW {
				continue
			}
			cw := checkedWriter{w, s}
			if op.Arg(1) == 4 && !s.low {
				w.optionalWriterOp(s, []byte(op.B), op.Arg(2), int(op.Arg(3)))
				continue
			}
			if op.Arg(1) == 5 && !s.low && len(op.B) > 0 && s.pos+len(op.B) <= s.end {
				// a patch applied a second time: the bytes written are the ones the image already
				// holds there (the position moves on all the same)
				st.Probe("write_of_what_is_already_there")
				_, _ = cw.Write(append([]byte{}, w.model[s.pos:s.pos+len(op.B)]...))
				continue
			}
			if op.Arg(1) == 3 && !s.low && len(op.B) > 1 {
				// moving a block up inside the image: the source is a slice of ROM.Contents that
				// overlaps the destination from below
				n := len(op.B)
				delta := 1 + int(op.B[0])%(n-1)
				src := s.pos - delta
				if src >= 0 && src+n <= len(w.img) {
					st.Probe("write_source_aliases_image")
					_, _ = cw.Write(rom.Contents[src : src+n])
					continue
				}
			}
			if op.Arg(1) == 2 {
				// io.Copy hands the transfer to the writer itself if it offers io.ReaderFrom: the
				// library's object is used directly and the outcome is checked afterwards
				src := plainReader{data: []byte(op.B)}
				room := s.end - s.pos
				if s.low {
					room = 0
				}
				var n int64
				var err error
				p, pv := sim.RecoverLib(func() { n, err = io.Copy(s.w, &src) })
				st.SimOps++
				env.ObsInt(int(n))
				env.ObsBool(err != nil)
				st.Probe("client_iocopy_writer")
				if p {
					w.fail("write_panic", "io.Copy of %d bytes into the writer panicked: %s", len(op.B), sim.PanicString(pv))
				} else if n < 0 || int(n) > len(op.B) || (!s.low && int(n) > room) {
					w.fail("write_beyond_window", "io.Copy of %d bytes with %d bytes of room reported %d bytes written", len(op.B), room, n)
				} else if err == nil && int(n) != len(op.B) {
					w.fail("silent_partial_write", "io.Copy of %d bytes into a writer with %d bytes of room returned (%d, nil): a silent partial write", len(op.B), room, n)
				} else if err != nil && !s.low && len(op.B) <= room {
					w.fail("write_spurious_error", "io.Copy of %d bytes fits (room %d) but returned (%d, %v)", len(op.B), room, n, err)
				} else if s.low && (n != 0 || (len(op.B) > 0 && err == nil)) {
					w.fail("low_half_write", "io.Copy into a stream below $8000 returned (%d, %v)", n, err)
				}
				if w.viol == nil && !s.low {
					copy(w.model[s.pos:s.pos+int(n)], op.B[:n])
					s.pos += int(n)
				}
				w.compareImage(fmt.Sprintf("io.Copy(%d bytes) -> (%d, %v)", len(op.B), n, err))
			} else if op.Arg(1) == 1 {
				if s.bw == nil {
					s.bw = bufio.NewWriterSize(cw, 32)
				}
				_, _ = s.bw.Write([]byte(op.B))
				_ = s.bw.Flush()
				// bufio.Writer is sticky after an error: start afresh for later ops
				s.bw = nil
				st.Probe("client_bufio_writer")
			} else {
				_, _ = cw.Write([]byte(op.B))
				st.Probe("client_raw_write")
			}
			// data written through a writer is what a fresh reader at the same place returns
			if w.viol == nil && !s.low && len(op.B) > 0 && s.pos > s.start {
				w.compareImage("write")
			}
		}
		env.OpDone()
		if w.viol != nil {
			return w.viol
		}
	}
	// final: a fresh reader over every window that was written returns the written data
	for _, id := range sortedKeys(streams) {
		s := streams[id]
		if s.skip || s.low || !s.isW || s.start >= s.end {
			continue
		}
		bank := s.start >> 15
		busAddr := uint32(bank<<16 | (0x8000 + (s.start & 0x7FFF)))
		fr := &c10stream{start: s.start, end: s.end, pos: s.start, snapshot: append([]byte{}, w.model[s.start:s.end]...)}
		panicked, pv := sim.RecoverLib(func() { fr.r = rom.BusReader(busAddr) })
		if panicked {
			return &sim.Violation{Oracle: "open_panic", Step: len(sc.Ops), Msg: sim.PanicString(pv)}
		}
		w.step = len(sc.Ops)
		b, _ := io.ReadAll(checkedReader{w, fr})
		if w.viol != nil {
			return w.viol
		}
		if string(b) != string(w.model[s.start:s.start+len(b)]) {
			return &sim.Violation{Oracle: "readback_mismatch", Step: len(sc.Ops), Msg: "a fresh reader at a written address does not return the written data"}
		}
		st.Probe("readback_after_write")
	}
	w.compareImage("end of run")
	if w.viol != nil {
		return w.viol
	}
	st.State(sim.HashBytes(uint64(len(streams)), []byte(fmt.Sprint(len(windows), size))))
	return nil
}

func sortedKeys(m map[int64]*c10stream) []int64 {
	var ks []int64
	for k := range m {
		ks = append(ks, k)
	}
	for i := 1; i < len(ks); i++ {
		for j := i; j > 0 && ks[j] < ks[j-1]; j-- {
			ks[j], ks[j-1] = ks[j-1], ks[j]
		}
	}
	return ks
}
