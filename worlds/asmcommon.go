// Package worlds holds one simulated world per claimed property (DESIGN §4).
package worlds

import (
	"fmt"
	"reflect"
	"sort"
	"strings"
	"unicode/utf8"

	"github.com/alttpo/snes/asm"

	"verif/sim"
)

// ---------------------------------------------------------------------------------------
// Method catalogue of *asm.Emitter, discovered by reflection so that a method added later
// is included automatically.

type asmMethod struct {
	Name  string
	Kinds []reflect.Kind // parameter kinds (integers only) — empty for implied instructions
	Size  int            // bytes the instruction occupies (independent table by naming rule)
	// immediate guard: 0 none, 'M' accumulator width, 'X' index width; Want16: operand is 16-bit
	Guard  byte
	Want16 bool
	IsRef  bool // takes a label name
	RefS8  bool // relative branch (signed 8-bit) rather than absolute 16-bit
	Ctrl   bool // control transfer / flag restore: excluded from straight-line programs (C07)
}

var asmSpecial = map[string]bool{
	"SetBase": true, "Comment": true, "EmitBytes": true, "Append": true, "AssumeREP": true,
	"AssumeSEP": true, "REP": true, "SEP": true, "Label": true, "Clone": true, "Finalize": true,
	"WriteTextTo": true, "WriteHexTo": true,
}

var asmPlain []asmMethod // instruction methods with integer parameters
var asmRefs []asmMethod  // instruction methods taking a label
var asmByName = map[string]*asmMethod{}

// insSize is an independent statement of how many bytes a method's instruction occupies,
// from the WDC addressing-mode naming used by the method names.
func insSize(name string, nargs int) int {
	switch {
	case name == "JSL" || name == "JML" || name == "JSL_lhb":
		return 4
	case name == "MVN" || name == "MVP":
		return 3
	case name == "WDM" || name == "REP" || name == "SEP" || name == "COP":
		return 2
	case strings.Contains(name, "_imm16"):
		return 3
	case strings.Contains(name, "_imm8"):
		return 2
	case strings.Contains(name, "_long"):
		return 4
	case strings.Contains(name, "_abs"), strings.Contains(name, "_indirect"):
		return 3
	case strings.Contains(name, "_dp"):
		return 2
	case nargs == 0:
		return 1
	}
	return 0 // unknown: measured at run time
}

func init() {
	t := reflect.TypeOf(&asm.Emitter{})
	for i := 0; i < t.NumMethod(); i++ {
		m := t.Method(i)
		if asmSpecial[m.Name] || m.Type.NumOut() != 0 {
			continue
		}
		am := asmMethod{Name: m.Name}
		ok := true
		for p := 1; p < m.Type.NumIn(); p++ {
			k := m.Type.In(p).Kind()
			switch k {
			case reflect.Uint8, reflect.Uint16, reflect.Uint32, reflect.Int8, reflect.Int16, reflect.Int32:
				am.Kinds = append(am.Kinds, k)
			case reflect.String:
				if m.Type.NumIn() == 2 {
					am.IsRef = true
				} else {
					ok = false
				}
			default:
				ok = false
			}
		}
		if !ok {
			continue
		}
		if am.IsRef {
			am.Size = 2
			am.RefS8 = true
			if strings.HasPrefix(m.Name, "J") {
				am.Size = 3
				am.RefS8 = false
			}
			am.Ctrl = true
			asmRefs = append(asmRefs, am)
			continue
		}
		am.Size = insSize(m.Name, len(am.Kinds))
		if strings.Contains(m.Name, "_imm8_") || strings.Contains(m.Name, "_imm16_") {
			am.Guard = 'M'
			mn := strings.SplitN(m.Name, "_", 2)[0]
			if mn == "LDX" || mn == "LDY" || mn == "CPX" || mn == "CPY" {
				am.Guard = 'X'
			}
			am.Want16 = strings.Contains(m.Name, "_imm16_")
			if m.Name == "JMP_abs_imm16_w" {
				am.Guard = 0
			}
		}
		switch {
		case strings.HasPrefix(m.Name, "B") && strings.HasSuffix(m.Name, "_imm8"):
			am.Ctrl = true
			am.Guard = 0
		case strings.HasPrefix(m.Name, "J"), m.Name == "RTS", m.Name == "RTL", m.Name == "RTI",
			m.Name == "PLP", m.Name == "STP", m.Name == "BRK", m.Name == "COP", m.Name == "WAI", m.Name == "XCE":
			am.Ctrl = true
		}
		asmPlain = append(asmPlain, am)
	}
	sort.Slice(asmPlain, func(i, j int) bool { return asmPlain[i].Name < asmPlain[j].Name })
	sort.Slice(asmRefs, func(i, j int) bool { return asmRefs[i].Name < asmRefs[j].Name })
	for i := range asmPlain {
		asmByName[asmPlain[i].Name] = &asmPlain[i]
	}
	for i := range asmRefs {
		asmByName[asmRefs[i].Name] = &asmRefs[i]
	}
}

// labelName: every fourth label carries non-ASCII (multi-byte UTF-8) characters.
func labelName(i int64) string {
	if i%4 == 3 {
		return fmt.Sprintf("l\u00e4bel\u2192%02d", i)
	}
	if i%4 == 1 {
		return fmt.Sprintf("l%%d_100%%_%02d", i) // a name with format verbs in it
	}
	if i%8 == 4 {
		return fmt.Sprintf("a_rather_long_label_name_%02d", i)
	}
	if i%4 == 2 {
		return fmt.Sprintf("lbl_%02d:", i) // a name that ends in a colon (a different name from the one without)
	}
	return fmt.Sprintf("lbl_%02d", i)
}

// ---------------------------------------------------------------------------------------
// Real emitter wrapper: applies an op by reflection, recovering library panics.

type asmReal struct {
	E *asm.Emitter
}

func callMethod(e *asm.Emitter, name string, args []int64, label string) {
	v := reflect.ValueOf(e)
	m := v.MethodByName(name)
	if !m.IsValid() {
		panic(fmt.Sprintf("harness: no method %s", name))
	}
	mt := m.Type()
	in := make([]reflect.Value, mt.NumIn())
	for i := 0; i < mt.NumIn(); i++ {
		pt := mt.In(i)
		if pt.Kind() == reflect.String {
			in[i] = reflect.ValueOf(label).Convert(pt)
			continue
		}
		var a int64
		if i < len(args) {
			a = args[i]
		}
		nv := reflect.New(pt).Elem()
		switch pt.Kind() {
		case reflect.Int8, reflect.Int16, reflect.Int32, reflect.Int64, reflect.Int:
			nv.SetInt(int64(int8(a)))
			if pt.Kind() != reflect.Int8 {
				nv.SetInt(a)
			}
		default:
			mask := uint64(1)<<(uint(pt.Bits())) - 1
			nv.SetUint(uint64(a) & mask)
		}
		in[i] = nv
	}
	m.Call(in)
}

// apply executes one emitter op on e. It returns whether the library panicked and with what.
func asmApply(e *asm.Emitter, op sim.Op) (panicked bool, msg string) {
	p, val := sim.RecoverLib(func() {
		switch op.K {
		case "setbase":
			e.SetBase(uint32(op.Arg(0)))
		case "ins":
			callMethod(e, op.S, op.N, "")
		case "ref":
			callMethod(e, op.S, nil, labelName(op.Arg(0)))
		case "label":
			e.Label(labelName(op.Arg(0)))
		case "data":
			// the caller owns the slice it passes and may reuse it right after the call: hand
			// over a private copy and scribble over it afterwards
			buf := append([]byte{}, op.B...)
			defer func() {
				for i := range buf {
					buf[i] ^= 0xFF
				}
			}()
			e.EmitBytes(buf)
		case "comment":
			e.Comment(op.S)
		case "rep":
			e.REP(asm.Flags(op.Arg(0)))
		case "sep":
			e.SEP(asm.Flags(op.Arg(0)))
		case "arep":
			e.AssumeREP(asm.Flags(op.Arg(0)))
		case "asep":
			e.AssumeSEP(asm.Flags(op.Arg(0)))
		}
	})
	return p, sim.PanicString(val)
}

// ---------------------------------------------------------------------------------------
// Reference model of the emitter (DESIGN §4 C06): no instruction encodings (C03 is not
// claimed), only sizes, addresses, labels, references, tracked flags, listing items.

type asmRef struct {
	Operand uint32 // address of the first operand byte
	InsAddr uint32
	S8      bool
	Label   string
}

type listItem struct {
	Kind  string // base | label | comment | ins | data
	Addr  uint32
	Len   int
	Text  string
	Ghost bool // the base directive: may be absent if nothing follows it
}

type asmModel struct {
	HasTarget bool
	NoCap     bool // emitting into a roomy clone: capacity is checked at Append
	Cap       int
	Len       int
	Base      uint32
	Addr      uint32
	basePend  bool
	Labels    map[string]uint32
	Refs      []asmRef
	Flags     uint8
	GenText   bool
	Items     []listItem
}

func newAsmModel(hasTarget bool, capacity int, genText bool) *asmModel {
	return &asmModel{HasTarget: hasTarget, Cap: capacity, GenText: genText, Labels: map[string]uint32{}}
}

func (m *asmModel) clone() *asmModel {
	c := *m
	c.Labels = map[string]uint32{}
	for k, v := range m.Labels {
		c.Labels[k] = v
	}
	c.Refs = append([]asmRef{}, m.Refs...)
	c.Items = append([]listItem{}, m.Items...)
	return &c
}

func (m *asmModel) is16(guard byte) bool {
	if guard == 'X' {
		return m.Flags&0x10 == 0
	}
	return m.Flags&0x20 == 0
}

// opSize returns the number of bytes the op emits (0 for directives).
func opSize(op sim.Op) int {
	switch op.K {
	case "ins", "ref":
		if am := asmByName[op.S]; am != nil {
			return am.Size
		}
		return 0
	case "data":
		return len(op.B)
	case "rep", "sep":
		return 2
	}
	return 0
}

type asmOutcome struct {
	Refused     string // "" accepted; "cap" | "width" | "duplabel"
	FlagsBefore uint8
}

func (m *asmModel) flushBase() {
	if m.basePend {
		m.basePend = false
		if m.GenText {
			m.Items = append(m.Items, listItem{Kind: "base", Addr: m.Addr})
		}
	}
}

// step advances the model by one emitter op and says whether the real emitter must refuse it.
func (m *asmModel) step(op sim.Op) asmOutcome {
	out := asmOutcome{FlagsBefore: m.Flags}
	size := opSize(op)
	fits := !m.HasTarget || m.NoCap || m.Len+size <= m.Cap
	switch op.K {
	case "setbase":
		m.Base = uint32(op.Arg(0))
		m.Addr = m.Base
		m.basePend = true
	case "arep":
		m.Flags &^= uint8(op.Arg(0))
	case "asep":
		m.Flags |= uint8(op.Arg(0))
	case "rep", "sep":
		// the tracker follows the emitted mask whether or not the bytes fit (the property's
		// refusal clause names bytes, length, pc and labels — not the tracked flags)
		if op.K == "rep" {
			m.Flags &^= uint8(op.Arg(0))
		} else {
			m.Flags |= uint8(op.Arg(0))
		}
		if !fits {
			out.Refused = "cap"
			return out
		}
		m.emit("ins", size, op.K)
	case "label":
		name := labelName(op.Arg(0))
		if _, dup := m.Labels[name]; dup {
			out.Refused = "duplabel"
			return out
		}
		m.Labels[name] = m.Addr
		if m.GenText {
			m.flushBase()
			m.Items = append(m.Items, listItem{Kind: "label", Addr: m.Addr, Text: name})
		}
	case "comment":
		if m.GenText {
			m.flushBase()
			m.Items = append(m.Items, listItem{Kind: "comment", Addr: m.Addr, Text: op.S})
		}
	case "data":
		if !fits {
			out.Refused = "cap"
			return out
		}
		m.emit("data", size, "")
	case "ins":
		am := asmByName[op.S]
		if am != nil && am.Guard != 0 && m.is16(am.Guard) != am.Want16 {
			out.Refused = "width"
			return out
		}
		if !fits {
			out.Refused = "cap"
			return out
		}
		m.emit("ins", size, op.S)
	case "ref":
		if !fits {
			out.Refused = "cap"
			return out
		}
		am := asmByName[op.S]
		ins := m.Addr
		m.emit("ins", size, op.S)
		m.Refs = append(m.Refs, asmRef{Operand: ins + 1, InsAddr: ins, S8: am.RefS8, Label: labelName(op.Arg(0))})
	}
	return out
}

func (m *asmModel) emit(kind string, size int, text string) {
	if m.GenText && size > 0 {
		m.flushBase()
		m.Items = append(m.Items, listItem{Kind: kind, Addr: m.Addr, Len: size, Text: text})
	}
	if m.HasTarget {
		m.Len += size
	}
	m.Addr += uint32(size)
}

// finalizeExpect: (ok, failing references) per the property's sentence.
func (m *asmModel) finalizeExpect() (bool, []asmRef) {
	var failing []asmRef
	for _, r := range m.Refs {
		la, def := m.Labels[r.Label]
		if !def {
			failing = append(failing, r)
			continue
		}
		if r.S8 {
			d := int64(la) - int64(r.Operand+1)
			if d > 127 || d < -128 {
				failing = append(failing, r)
			}
		}
	}
	return len(failing) == 0, failing
}

// operandMask marks the buffer offsets that are operand bytes of label references.
func (m *asmModel) operandMask(n int) []bool {
	mask := make([]bool, n)
	for _, r := range m.Refs {
		o := int(r.Operand - m.Base)
		cnt := 2
		if r.S8 {
			cnt = 1
		}
		for i := 0; i < cnt; i++ {
			if o+i >= 0 && o+i < n {
				mask[o+i] = true
			}
		}
	}
	return mask
}

// ---------------------------------------------------------------------------------------
// Snapshots of the observable emitter state.

type asmSnap struct {
	Err    string // non-empty: an accessor of the emitter panicked
	Bytes  []byte
	Len    int
	Cap    int
	PC     uint32
	Flags  uint8
	Labels map[string]int64 // -1: undefined
}

var allLabelIdx = 12

func snapEmitter(e *asm.Emitter) asmSnap {
	s := asmSnap{Labels: map[string]int64{}}
	p, v := sim.RecoverLib(func() {
		s.Len, s.Cap, s.PC, s.Flags = e.Len(), e.Cap(), e.PC(), uint8(e.Flags())
		s.Bytes = append([]byte{}, e.Bytes()...)
		for i := 0; i < allLabelIdx; i++ {
			n := labelName(int64(i))
			if v, ok := e.GetLabel(n); ok {
				s.Labels[n] = int64(v)
			} else {
				s.Labels[n] = -1
			}
		}
	})
	if p {
		s.Err = "accessor panicked: " + sim.PanicString(v)
		s.Bytes = nil
		for i := 0; i < allLabelIdx; i++ {
			if _, ok := s.Labels[labelName(int64(i))]; !ok {
				s.Labels[labelName(int64(i))] = -1
			}
		}
	}
	return s
}

// accessorViolation reports a panic of Len/Cap/PC/Flags/Bytes/GetLabel as a violation.
func accessorViolation(s asmSnap, step int, op sim.Op) *sim.Violation {
	if s.Err == "" {
		return nil
	}
	return &sim.Violation{Oracle: "accessor_panic", Step: step, Msg: fmt.Sprintf("after %s: %s", op, s.Err)}
}

func (a asmSnap) diff(b asmSnap, withFlags bool) string {
	if a.Len != b.Len {
		return fmt.Sprintf("Len %d -> %d", a.Len, b.Len)
	}
	if a.Cap != b.Cap {
		return fmt.Sprintf("Cap %d -> %d", a.Cap, b.Cap)
	}
	if a.PC != b.PC {
		return fmt.Sprintf("PC %#x -> %#x", a.PC, b.PC)
	}
	if withFlags && a.Flags != b.Flags {
		return fmt.Sprintf("Flags %#x -> %#x", a.Flags, b.Flags)
	}
	if string(a.Bytes) != string(b.Bytes) {
		for i := range a.Bytes {
			if i < len(b.Bytes) && a.Bytes[i] != b.Bytes[i] {
				return fmt.Sprintf("Bytes differ at offset %d: %02x -> %02x", i, a.Bytes[i], b.Bytes[i])
			}
		}
		return "Bytes differ"
	}
	for i := 0; i < allLabelIdx; i++ {
		n := labelName(int64(i))
		if a.Labels[n] != b.Labels[n] {
			return fmt.Sprintf("label %s %#x -> %#x", n, a.Labels[n], b.Labels[n])
		}
	}
	return ""
}

func obsSnap(env *sim.Env, s asmSnap) {
	env.ObsBytes(s.Bytes)
	env.ObsInt(s.Len)
	env.ObsInt(s.Cap)
	env.ObsU64(uint64(s.PC))
	env.ObsU64(uint64(s.Flags))
	for i := 0; i < allLabelIdx; i++ {
		env.ObsU64(uint64(s.Labels[labelName(int64(i))]))
	}
}

// ---------------------------------------------------------------------------------------
// Shared generator pieces.

// genIns picks an instruction op valid (or, when allowWrong, possibly invalid) under flags.
func genIns(r *sim.Rand, flags uint8, allowWrong bool, straight bool) sim.Op {
	for tries := 0; tries < 50; tries++ {
		am := asmPlain[r.Intn(len(asmPlain))]
		if straight && am.Ctrl {
			continue
		}
		if am.Guard != 0 && !allowWrong {
			is16 := flags&0x20 == 0
			if am.Guard == 'X' {
				is16 = flags&0x10 == 0
			}
			if is16 != am.Want16 {
				continue
			}
		}
		op := sim.Op{K: "ins", S: am.Name}
		for _, k := range am.Kinds {
			var v int64
			switch k {
			case reflect.Uint8:
				v = int64(r.Intn(256))
			case reflect.Int8:
				v = int64(int8(r.Intn(256)))
			case reflect.Uint16:
				v = int64(r.Intn(65536))
				if r.Chance(1, 6) {
					v = int64(sim.PickInt(r, 0, 1, 0x7F, 0x80, 0xFF, 0x100, 0xFFFF, r.Intn(256))) // direct-page sized and edge values
				}
			default:
				v = int64(r.Intn(1 << 24))
			}
			op.N = append(op.N, v)
		}
		return op
	}
	return sim.Op{K: "ins", S: "NOP"}
}

func genFlagOp(r *sim.Rand) sim.Op {
	masks := []int64{0x10, 0x20, 0x30, 0x30, 0x20, 0x10, 0x00, 0x01, 0x08, 0xC3, 0x31, 0xFF, int64(r.Intn(256))}
	return sim.Op{K: sim.PickStr(r, "rep", "sep", "rep", "sep", "arep", "asep"), N: []int64{masks[r.Intn(len(masks))]}}
}

func applyFlagOp(flags uint8, op sim.Op) uint8 {
	switch op.K {
	case "rep", "arep":
		return flags &^ uint8(op.Arg(0))
	case "sep", "asep":
		return flags | uint8(op.Arg(0))
	}
	return flags
}

var dataLens = []int{0, 1, 2, 3, 4, 5, 15, 16, 17, 31, 32, 33, 48, 64, 100, 255}

func genData(r *sim.Rand, maxLen int) sim.Op {
	n := dataLens[r.Intn(len(dataLens))]
	if r.Chance(1, 3) {
		n = r.Intn(40)
	}
	if n > maxLen {
		n = maxLen
	}
	return sim.Op{K: "data", B: r.Bytes(n)}
}

var commentAlphabet = "abcdefghijklmnopqrstuvwxyz ABCDEFGHIJKLMNOPQRSTUVWXYZ0123456789 ,.;:!?#()[]{}<>+-*/=_'\"%&|@^~"

func genComment(r *sim.Rand) sim.Op {
	n := sim.PickInt(r, 0, 1, 5, 20, 60, 110, 119, 120, 121, 200, 300)
	if r.Chance(1, 2) {
		n = r.Intn(40)
	} else if r.Chance(1, 30) {
		n = sim.PickInt(r, 1017, 1018, 1021, 1024, 4095, 4096, 5000) // longer than any internal block
	} else if r.Chance(1, 500) {
		n = sim.PickInt(r, 65535, 65536, 70000)
	}
	b := make([]byte, n)
	for i := range b {
		b[i] = commentAlphabet[r.Intn(len(commentAlphabet))]
	}
	if n >= 4 && r.Chance(1, 8) {
		// non-ASCII text (valid multi-byte UTF-8, so that replay files reproduce it exactly)
		extra := []string{"\u00e9", "\u2192", "\u6f22", "\u00df", "\U0001F600"}
		for k := 0; k < 1+r.Intn(3); k++ {
			x := extra[r.Intn(len(extra))]
			if at := r.Intn(n - len(x) + 1); at >= 0 && len(x) <= n {
				copy(b[at:], x)
			}
		}
		if !utf8.Valid(b) {
			// an overwritten sequence was cut: fall back to one clean character
			for i := range b {
				if b[i] >= 0x80 {
					b[i] = '~'
				}
			}
			copy(b, "\u00e9")
		}
	}
	// a comment must not look like the address line of a data block ("; $7e2000" / "; 0x7e2000")
	if n >= 2 && b[0] == '0' && (b[1] == 'x' || b[1] == 'X') {
		b[0] = 'o'
	}
	return sim.Op{K: "comment", S: string(b)}
}

// genBase picks a base configuration: (set?, address). Programs stay inside one bank.
func genBase(r *sim.Rand, room int) (bool, uint32) {
	switch r.Intn(5) {
	case 0:
		return false, 0
	case 1:
		return true, 0x008000
	case 2:
		return true, 0x7E2000
	case 3:
		return true, 0
	}
	bank := uint32(r.Intn(256))
	if room > 0x10000 {
		// a program of several banks: it has to end inside the 24-bit address space
		bank = uint32(r.Intn(256 - (room >> 16) - 1))
	}
	maxOff := 0x10000 - room
	if maxOff < 1 {
		maxOff = 1
	}
	return true, bank<<16 | uint32(r.Intn(maxOff))
}

// mkTarget allocates an emitter target of length n. The seam (S8) is the slice the caller
// hands over: its len is the capacity the library may use. In half of the runs (spare = true)
// the slice is a window into a larger backing array — as when assembling into a ROM image —
// so cap(target) > len(target); the bytes behind the window belong to the caller and are
// returned as guard for a must-stay-untouched check.
func mkTarget(n int, spare bool) (target []byte, guard []byte) {
	if !spare {
		return make([]byte, n), nil
	}
	backing := make([]byte, n+48)
	for i := range backing {
		backing[i] = 0xC3
	}
	for i := 0; i < n; i++ {
		backing[i] = 0
	}
	return backing[:n], backing[n:]
}

func guardIntact(g []byte) bool {
	for _, b := range g {
		if b != 0xC3 {
			return false
		}
	}
	return true
}

// cloneSeg routes a block of a history through Clone/Append (with a discarded sibling clone
// of the same parent that receives the same calls one byte later), for the worlds whose
// property is about "any sequence of emitter calls".
type cloneSeg struct {
	orig *asm.Emitter
	sib  *asm.Emitter
	// Nested: the block goes into a clone of a clone (the outer clone emits nothing itself and
	// is appended right after the inner one): still one sequence of emitter calls
	Nested bool
	outer  *asm.Emitter
}

func (cs *cloneSeg) active() bool { return cs.orig != nil }

// begin replaces *e by a clone of it. Returns a panic message if Clone panicked.
func (cs *cloneSeg) begin(e **asm.Emitter, room int) string {
	var c *asm.Emitter
	if p, pv := sim.RecoverLib(func() { c = (*e).Clone(make([]byte, room)) }); p || c == nil {
		return "Clone panicked: " + sim.PanicString(pv)
	}
	sim.RecoverLib(func() { cs.sib = (*e).Clone(make([]byte, room+8)) })
	if cs.sib != nil {
		asmApply(cs.sib, sim.Op{K: "ins", S: "NOP"})
	}
	if cs.Nested {
		var c2 *asm.Emitter
		if p, pv := sim.RecoverLib(func() { c2 = c.Clone(make([]byte, room)) }); p || c2 == nil {
			return "Clone of a clone panicked: " + sim.PanicString(pv)
		}
		cs.outer, c = c, c2
	}
	cs.orig, *e = *e, c
	return ""
}

func (cs *cloneSeg) mirror(op sim.Op) {
	if cs.sib != nil {
		asmApply(cs.sib, op)
	}
}

// end appends the clone back and restores *e. Returns the bytes the block contributed.
func (cs *cloneSeg) end(e **asm.Emitter) (block []byte, msg string) {
	c := *e
	block = append([]byte{}, c.Bytes()...)
	if cs.outer != nil {
		// the outer clone has all the room it needs: this Append fits
		if p, pv := sim.RecoverLib(func() { cs.outer.Append(c) }); p {
			msg = "Append of a clone's clone to the clone panicked: " + sim.PanicString(pv)
		}
		c = cs.outer
	}
	if p, pv := sim.RecoverLib(func() { cs.orig.Append(c) }); p && msg == "" {
		msg = "Append panicked: " + sim.PanicString(pv)
	}
	*e, cs.orig, cs.sib, cs.outer = cs.orig, nil, nil, nil
	return
}

// withCloneSegment inserts clone/append markers around a random block of ops that contains
// none of the kinds in avoid.
func withCloneSegment(r *sim.Rand, ops []sim.Op, avoid map[string]bool) []sim.Op {
	if len(ops) < 2 {
		return ops
	}
	a := r.Intn(len(ops))
	b := a
	if ops[0].K == "setbase" && r.Chance(1, 4) {
		// the split lies before SetBase: the clone is given the base (nothing emitted yet)
		a, b = 0, 1
	}
	for b < len(ops) && !avoid[ops[b].K] && b-a < 12 {
		b++
	}
	if b == a {
		return ops
	}
	var out []sim.Op
	out = append(out, ops[:a]...)
	out = append(out, sim.Op{K: "clone"})
	out = append(out, ops[a:b]...)
	out = append(out, sim.Op{K: "append"})
	out = append(out, ops[b:]...)
	return out
}

// resyncFlags: whether a REP/SEP that is refused for capacity has already updated the
// tracked widths is not fixed by any property (the pinned tree updates first, an equally
// legitimate implementation emits first); after such a refusal the model adopts whatever
// the emitter tracks.
func resyncFlags(m *asmModel, e *asm.Emitter, op sim.Op, out asmOutcome) {
	if out.Refused == "cap" && (op.K == "rep" || op.K == "sep") {
		m.Flags = uint8(e.Flags())
	}
}
