package worlds

import (
	"fmt"

	"github.com/alttpo/snes/emulator/bus"
	"github.com/alttpo/snes/emulator/memory"

	"verif/sim"
)

// C13 — bus routing follows Attach exactly and EaDump agrees with byte-wise reads.
// Seam S1: every access lands in a simulated device that records the address it was given.
// The simulator chooses a history of reconfigurations (overlapping, nested, adjacent,
// re-attached, top-of-space ranges), the failure events in it (mis-aligned Attach, accesses
// to holes), and dump ranges of every alignment across devices and holes.
type c13 struct{}

func init() { sim.Register(c13{}) }

func (c13) ID() string     { return "C13" }
func (c13) Level() string  { return "exploration" }
func (c13) QuickRuns() int { return 8000 }
func (c13) Rule() string {
	return "each evaluation is one history of <=30 bus operations on a fresh bus.Bus with up to 6 simulated devices: Attach over overlapping/nested/adjacent/re-attached/top-of-space ranges (some mis-aligned), EaRead/EaWrite at addresses biased to range edges +-1 and +-16 and to holes, EaDump over ranges of every alignment inside one device, across two devices, across and into holes; checked op by op against an owner[2^20] table; distinct = distinct scenario hash; non-trivial = the history contains a rejected Attach, an access to a hole, an overlapping Attach, or a dump with an unaligned start or crossing a device/hole boundary"
}
func (c13) Assumptions() []string {
	return []string{
		"addresses are 24-bit; ranges have start <= end",
		"an unattached access 'fails loudly' = the call panics and no device is called",
		"the dump buffer is exactly as long as the range plus 8 guard bytes that must stay untouched",
	}
}
func (c13) Components() map[string][]string {
	return map[string][]string{"real": {"emulator/bus.Bus Attach/EaRead/EaWrite/EaDump (instrumented copy)"}, "stub": {"SimMem devices stand in for memory.RAM/ROM so that the address each device receives is observable"}}
}

// attachName: the label given to Attach is informational; typical ones are used.
func attachName(dev int, start uint32) string {
	names := []string{"rom", "ram", "sram", "wram", "io", "", "ROM", "dev"}
	return names[(uint32(dev)+start>>4)%uint32(len(names))]
}

func (c13) Gen(r *sim.Rand, tier string, run uint64) *sim.Scenario {
	sc := &sim.Scenario{Cfg: map[string]int64{}}
	ndev := r.Range(1, 6)
	sc.Cfg["ndev"] = int64(ndev)
	n := r.Range(2, 30)
	var ops []sim.Op
	// interesting addresses: edges of attached ranges
	var edges []int64
	region := int64(r.Intn(0x100)) << 16
	if r.Chance(1, 4) {
		region = 0xFF0000
	}
	pickAligned := func() (int64, int64) {
		var start int64
		if len(edges) > 0 && r.Chance(1, 2) {
			e := edges[r.Intn(len(edges))]
			start = (e &^ 0xF) + int64(r.Range(-3, 3))*16
		} else {
			start = region + int64(r.Intn(0x1000))*16
		}
		if start < 0 {
			start = 0
		}
		if start > 0xFFFFF0 {
			start = 0xFFFFF0
		}
		blocks := int64(sim.PickInt(r, 1, 1, 2, 3, 16, 17, 256, r.Range(1, 64)))
		end := start + blocks*16 - 1
		if end > 0xFFFFFF || r.Chance(1, 12) {
			end = 0xFFFFFF
		}
		return start, end
	}
	pickAddr := func() int64 {
		if r.Chance(1, 25) {
			// beyond the 24-bit space: never attachable, so it must fail loudly too
			return 0x1000000 + int64(r.Intn(0x100000))<<4*int64(r.Intn(2)) + int64(r.Intn(64))
		}
		if len(edges) > 0 && r.Chance(4, 5) {
			e := edges[r.Intn(len(edges))]
			a := e + int64(sim.PickInt(r, -17, -16, -15, -1, 0, 1, 15, 16, 17, r.Range(-40, 40)))
			if a < 0 {
				a = 0
			}
			if a > 0xFFFFFF {
				a = 0xFFFFFF
			}
			return a
		}
		return region + int64(r.Intn(0x10000))
	}
	for len(ops) < n {
		if len(edges) > 0 && r.Chance(1, 60) {
			// a copy of the Bus value gets an Attach of its own: two buses, independent routing
			s, e := pickAligned()
			ops = append(ops, sim.Op{K: "fork", N: []int64{int64(r.Intn(ndev)), s, e}})
			continue
		}
		switch x := r.Intn(100); {
		case x < 30 || len(edges) == 0:
			s, e := pickAligned()
			if r.Chance(1, 6) {
				// mis-aligned start or end: must be rejected and change nothing
				if r.Chance(1, 2) {
					s += int64(r.Range(1, 15))
				} else {
					e -= int64(r.Range(1, 15))
				}
				if e < s {
					e = s
				}
			} else if s > 0x100 && r.Chance(1, 12) {
				// an inverted range (end below start, e.g. a size passed where the end belongs):
				// it covers no address, so it may route nothing; mis-aligned, it must be rejected
				size := e - s + 1
				e = int64(sim.PickInt(r, int(size), int(size)-1, int(s)-1, int(s)-17, 0xF, 0x10, r.Intn(int(s))))
				if e < 0 || e >= s {
					e = 0xF
				}
				ops = append(ops, sim.Op{K: "attach", N: []int64{int64(r.Intn(ndev)), s, e}})
				edges = append(edges, s, s+size-1)
				continue
			}
			dev := int64(r.Intn(ndev))
			if r.Chance(1, 15) {
				dev = -1 // Attach(nil, ...): detaches an aligned range; mis-aligned, it is rejected like any other
			}
			if r.Chance(1, 30) {
				// an end given exclusively, beyond the 24-bit space and not aligned: rejected
				big := int64(sim.PickInt(r, 0x1000000, 0x1000001, 0xFFFFFFFE, 0x1000008))
				ops = append(ops, sim.Op{K: "attach", N: []int64{int64(r.Intn(ndev)), s &^ 0xF, big, 1}})
				continue
			}
			ops = append(ops, sim.Op{K: "attach", N: []int64{dev, s, e}})
			edges = append(edges, s, e)
			if r.Chance(1, 150) {
				// a bank-switching mapper: one small window re-attached tens of thousands of times
				ws := s &^ 0xF
				ops = append(ops, sim.Op{K: "churn", N: []int64{ws, int64(sim.PickInt(r, 70000, 66000, 131080)), int64(r.Intn(ndev))}})
				edges = append(edges, ws, ws+15)
			}
		case x < 44:
			ops = append(ops, sim.Op{K: "read", N: []int64{pickAddr()}})
		case x < 50:
			// 24-bit read (three consecutive bytes), biased to straddle a 16-byte segment edge
			a := pickAddr()
			if r.Chance(2, 3) {
				a = a&^0xF | int64(sim.PickInt(r, 0xD, 0xE, 0xF, 0xE))
			}
			ops = append(ops, sim.Op{K: "read24", N: []int64{a}})
		case x < 65:
			ops = append(ops, sim.Op{K: "write", N: []int64{pickAddr(), int64(r.Intn(256))}})
		default:
			s := pickAddr()
			l := int64(sim.PickInt(r, 1, 2, 15, 16, 17, 31, 32, 33, r.Range(1, 80), r.Range(1, 300)))
			e := s + l - 1
			if e > 0xFFFFFF {
				e = 0xFFFFFF
			}
			if s > 0x20 && r.Chance(1, 15) {
				// a range without any address: empty (end = start-1) or inverted
				e = s - int64(sim.PickInt(r, 1, 1, 2, 8, 15, 16, 17, 32))
			}
			ops = append(ops, sim.Op{K: "dump", N: []int64{s, e}})
			if e >= s && r.Chance(1, 5) {
				// the memory behind the window changes without the bus being involved (the owner of
				// the device writes into it, a counter ticks), then the same window is dumped again
				ops = append(ops, sim.Op{K: "poke", N: []int64{s + int64(r.Intn(int(e-s)+1)), int64(r.Intn(256))}})
				ops = append(ops, sim.Op{K: "dump", N: []int64{s, e}})
			}
		}
	}
	sc.Ops = ops
	sc.Cfg["realmem"] = int64(r.Intn(4))
	if r.Chance(1, 4) {
		// keep the whole history inside the I/O window of one bank so that the FakeHW device is usable
		sc.Cfg["realmem"] = 3
	} // how many of the devices are the library's own memory.RAM / memory.ROM
	sc.Cfg["region"] = region
	if r.Chance(1, 4) {
		// the last device re-enters the bus on every access (reads one byte somewhere else)
		sc.Cfg["reenter"] = region + int64(r.Intn(0x10000))
	} else if r.Chance(1, 4) {
		// the last device is a bank-switching register: a write to it attaches device (value
		// mod ndev) over a 16-byte window, from inside the Write callback
		sc.Cfg["banksw"] = (region + int64(r.Intn(0x10000))) &^ 0xF
	}
	if len(edges) > 1 && r.Chance(1, 3) {
		// a route looked up once, the bus busy elsewhere, the block handed to another device, the
		// block accessed again: the shape any remembered routing decision has to survive. Drawn
		// last and appended behind the history, so that everything above is generated as before.
		a := edges[r.Intn(len(edges))]
		far := edges[r.Intn(len(edges))]
		blk := a &^ 0xF
		first := sim.Op{K: "read", N: []int64{a}}
		if r.Chance(1, 2) {
			first = sim.Op{K: "write", N: []int64{a, int64(r.Intn(256))}}
		}
		away := sim.Op{K: "read24", N: []int64{far}}
		switch r.Intn(4) {
		case 0:
			away = sim.Op{K: "read", N: []int64{far}}
		case 1:
			away = sim.Op{K: "dump", N: []int64{far, far + int64(r.Range(0, 20))}}
		}
		dev := int64(r.Intn(ndev))
		if r.Chance(1, 8) {
			dev = -1
		}
		clamp := func(v int64) int64 {
			if v < 0 {
				return 0
			}
			if v > 0xFFFFFF {
				return 0xFFFFFF
			}
			return v
		}
		if away.K == "dump" {
			away.N[1] = clamp(away.N[1])
		}
		sc.Ops = append(sc.Ops, first, away,
			sim.Op{K: "attach", N: []int64{dev, blk, clamp(blk + int64(sim.PickInt(r, 1, 1, 2, 16))*16 - 1)}},
			sim.Op{K: "read", N: []int64{blk + int64(r.Intn(16))}},
			sim.Op{K: "dump", N: []int64{clamp(blk - int64(r.Intn(9))), clamp(blk + int64(r.Range(15, 40)))}})
	}
	return sc
}

// realDev is one of the library's own memories (memory.RAM by value, *memory.ROM) over a
// backing slice that is deliberately longer than any range it gets attached to.
type realDev struct {
	mem    memory.Memory
	data   []byte
	offset uint32
	rom    bool
	hw     bool // *memory.FakeHW: serves offsets $2000-$7FFF of any bank from one shared register file
}

// at returns the byte the device holds for bus address a.
func (rd *realDev) at(a uint32) byte {
	if rd.hw {
		return rd.data[a&0xFFFF-0x2000]
	}
	return rd.data[a-rd.offset]
}

func (c13) Exec(sc *sim.Scenario, env *sim.Env) *sim.Violation {
	sim.Activate(env)
	defer sim.Deactivate()
	st := env.Stats
	wd := uint64(len(sc.Ops)+4) * 5000000
	for _, op := range sc.Ops {
		if op.K == "churn" {
			wd += uint64(op.Arg(1)) * 8000 // an Attach may legitimately cost a table scan now and then
		}
	}
	env.SetWatchdog(wd)
	ndev := int(sc.C("ndev"))
	if ndev < 1 {
		ndev = 1
	}
	if ndev > 8 {
		ndev = 8
	}
	b, err := bus.New()
	if err != nil || b == nil {
		return &sim.Violation{Oracle: "bus_new", Step: 0, Msg: fmt.Sprint(err)}
	}
	if sim.Mix(sc.Seed^0xB05)%4 == 0 {
		// a bus that never went through New(): the zero value, the way emulator.System embeds it
		b = new(bus.Bus)
		st.Probe("zero_value_bus")
	}
	devs := make([]*SimMem, ndev)
	reals := make([]*realDev, ndev)
	for i := range devs {
		devs[i] = NewSimMem(env, i, sim.Mix(sc.Seed^uint64(i+1)))
		// e.g. a small register block mirrored over a larger window reports its own size
		devs[i].SizeV = []uint32{0, 16, 0x100, 0x10000, 1}[sim.Mix(sc.Seed^uint64(i)*77)%5]
	}
	if probe := uint32(sc.C("reenter")) & 0xFFFFFF; probe != 0 && ndev > 0 {
		// the last device's accesses have a side effect that goes back to the same bus: one
		// read elsewhere (which may hit another device, the device itself, or a hole). The
		// nested access is not the harness's subject: it is neither logged nor checked.
		nested := false
		d := devs[ndev-1]
		d.Reenter = func(uint32) {
			if nested {
				return
			}
			nested = true
			saved := make([]bool, len(devs))
			for k, x := range devs {
				saved[k], x.NoLog = x.NoLog, true
			}
			sim.RecoverLib(func() { _ = b.EaRead(probe) })
			for k, x := range devs {
				x.NoLog = saved[k]
			}
			nested = false
			st.Probe("device_reentered_the_bus")
		}
	}
	bankWin := uint32(sc.C("banksw")) & 0xFFFFF0
	bankPending := int8(-1)
	if bankWin != 0 && ndev > 0 {
		d := devs[ndev-1]
		d.OnWrite = func(_ uint32, v byte) {
			to := int(v) % ndev
			if p, _ := sim.RecoverLib(func() { _ = b.Attach(devs[to], "bank", bankWin, bankWin+15) }); !p {
				bankPending = int8(to)
			}
			st.Probe("attach_from_write_callback")
		}
	}
	nreal := int(sc.C("realmem"))
	for i := 0; i < nreal && i < ndev; i++ {
		// window: 128 KiB around the scenario's region (clamped), content = the same fill
		// pattern the simulated device of that index would serve
		base := uint32(sc.C("region")) & 0xFF0000
		if base > 0xFE0000 {
			base = 0xFE0000
		}
		size := 0x20000
		if i == 0 && sc.Seed&32 != 0 {
			size = 0x1FFE0 // not a power of two (a RAM that folds addresses with a mask gets this wrong)
		}
		rd := &realDev{data: make([]byte, size), offset: base, rom: i%2 == 1}
		if i == 2 {
			// the library's I/O register placeholder
			hw := &memory.FakeHW{}
			rd = &realDev{data: make([]byte, 0x6000), hw: true, mem: hw}
			for j := range rd.data {
				rd.data[j] = devs[i].Fill(uint32(j))
				hw.Write(0x2000+uint32(j), rd.data[j])
			}
			reals[i] = rd
			continue
		}
		for j := range rd.data {
			rd.data[j] = devs[i].Fill(base + uint32(j))
		}
		if rd.rom {
			rd.mem = memory.NewROM(rd.data, base)
		} else {
			rd.mem = memory.NewRAM(rd.data, base)
		}
		reals[i] = rd
	}
	// inWindow: may device i serve [s,e]? (a real memory only inside its backing slice)
	inWindow := func(i int, s, e uint32) bool {
		rd := reals[i]
		if rd != nil && rd.hw {
			return s>>16 == e>>16 && s&0xFFFF >= 0x2000 && e&0xFFFF <= 0x7FFF
		}
		return rd == nil || (s >= rd.offset && uint64(e) < uint64(rd.offset)+uint64(len(rd.data)))
	}
	useReal := make([]bool, 1<<20) // per block: is the owner's real memory attached there
	peek := func(own int8, a uint32) byte {
		if useReal[a>>4] {
			return reals[own].at(a)
		}
		return devs[own].Peek(a)
	}
	owner := make([]int8, 1<<20)
	for i := range owner {
		owner[i] = -1
	}
	// spot: one read of the bus at a against the routing model
	spot := func(a uint32) *sim.Violation {
		own := owner[a>>4]
		var got byte
		p, _ := sim.RecoverLib(func() { got = b.EaRead(a) })
		if own < 0 {
			if !p {
				return &sim.Violation{Oracle: "hole_not_loud", Msg: fmt.Sprintf("a read at %06x, which no range was attached over, did not fail (returned %02x)", a, got)}
			}
			return nil
		}
		if p || got != peek(own, a) {
			return &sim.Violation{Oracle: "routing", Msg: fmt.Sprintf("a read at %06x (owner dev%d) gives %02x (panicked=%v), want %02x", a, own, got, p, peek(own, a))}
		}
		return nil
	}
	logLen := func() int {
		n := 0
		for _, d := range devs {
			n += len(d.Log)
		}
		return n
	}
	clearLogs := func() {
		for _, d := range devs {
			d.Log = d.Log[:0]
		}
	}
	nontrivial := false
	for i, op := range sc.Ops {
		st.SimOps++
		clearLogs()
		switch op.K {
		case "attach":
			dev := int(op.Arg(0))
			if dev < 0 || dev >= ndev {
				dev = 0
			}
			if op.Arg(3) == 1 {
				// end beyond 24 bits, mis-aligned: must be rejected and route nothing
				s, e := uint32(op.Arg(1))&0xFFFFF0, uint32(op.Arg(2))
				if (e+1)&0xF == 0 {
					continue // (an aligned one makes the pinned tree index past its table: not asked)
				}
				var aerr error
				p, pv := sim.RecoverLib(func() { aerr = b.Attach(devs[dev], "far", s, e) })
				if p {
					return &sim.Violation{Oracle: "attach_panic", Step: i, Msg: fmt.Sprintf("Attach(%06x,%08x) panicked: %s", s, e, sim.PanicString(pv))}
				}
				if aerr == nil {
					return &sim.Violation{Oracle: "attach_outcome", Step: i, Msg: fmt.Sprintf("Attach(%06x,%08x): the end is not 16-byte aligned but no error", s, e)}
				}
				st.Fault("attach_rejected")
				nontrivial = true
				for _, a := range []uint32{s, 0xFFFFFF, 0xFFFFF0, (s + 0x10) & 0xFFFFFF} {
					if v := spot(a); v != nil {
						v.Step = i
						v.Msg = fmt.Sprintf("after the rejected Attach(%06x,%08x): ", s, e) + v.Msg
						return v
					}
				}
				continue
			}
			s, e := uint32(op.Arg(1))&0xFFFFFF, uint32(op.Arg(2))&0xFFFFFF
			if e < s {
				// the range [s,e] is empty: nothing may be routed by it (every later op checks the
				// routing against the unchanged model); mis-aligned bounds must still be rejected
				var aerr error
				p, pv := sim.RecoverLib(func() { aerr = b.Attach(devs[dev], attachName(dev, s), s, e) })
				env.ObsBool(p)
				if p {
					return &sim.Violation{Oracle: "attach_panic", Step: i, Msg: fmt.Sprintf("Attach(%06x,%06x) panicked: %s", s, e, sim.PanicString(pv))}
				}
				if (s&0xF != 0 || (e+1)&0xF != 0) && aerr == nil {
					return &sim.Violation{Oracle: "attach_outcome", Step: i, Msg: fmt.Sprintf("Attach(%06x,%06x): bounds not 16-byte aligned but no error", s, e)}
				}
				if logLen() != 0 {
					return &sim.Violation{Oracle: "attach_touched_device", Step: i, Msg: "Attach accessed a device"}
				}
				st.Probe("attach_inverted_range")
				nontrivial = true
				// spot check both ends of what a size-reading of the call would have covered
				for _, a := range []uint32{s, (s + e - 1) & 0xFFFFFF, (s + e/2) & 0xFFFFFF} {
					if v := spot(a); v != nil {
						v.Step = i
						v.Msg = fmt.Sprintf("after Attach(%06x,%06x) (end below start: an empty range): ", s, e) + v.Msg
						return v
					}
				}
				continue
			}
			aligned := s&0xF == 0 && (e+1)&0xF == 0
			var aerr error
			if op.Arg(0) < 0 {
				// nil memory: what is attached there afterwards is nothing
				p, pv := sim.RecoverLib(func() { aerr = b.Attach(nil, "", s, e) })
				env.ObsBool(p)
				env.ObsBool(aerr != nil)
				if p {
					return &sim.Violation{Oracle: "attach_panic", Step: i, Msg: fmt.Sprintf("Attach(nil,%06x,%06x) panicked: %s", s, e, sim.PanicString(pv))}
				}
				if aligned != (aerr == nil) {
					return &sim.Violation{Oracle: "attach_outcome", Step: i, Msg: fmt.Sprintf("Attach(nil,%06x,%06x): aligned=%v but error=%v", s, e, aligned, aerr)}
				}
				if aligned {
					for x := s >> 4; x <= e>>4; x++ {
						owner[x] = -1
						useReal[x] = false
					}
					st.Probe("attach_nil_detaches")
				} else {
					st.Fault("attach_rejected")
				}
				nontrivial = true
				// spot checks just outside and inside
				for _, a := range []uint32{s, e, (s - 1) & 0xFFFFFF, (e + 1) & 0xFFFFFF, s &^ 0xF, e | 0xF} {
					if v := spot(a); v != nil {
						v.Step = i
						v.Msg = fmt.Sprintf("after Attach(nil,%06x,%06x) (aligned=%v): ", s, e, aligned) + v.Msg
						return v
					}
				}
				continue
			}
			var m memory.Memory = devs[dev]
			real := reals[dev] != nil && inWindow(dev, s, e)
			if real {
				m = reals[dev].mem
				st.Probe("library_memory_attached")
			}
			p, pv := sim.RecoverLib(func() { aerr = b.Attach(m, attachName(dev, s), s, e) })
			env.ObsBool(p)
			env.ObsBool(aerr != nil)
			if p {
				return &sim.Violation{Oracle: "attach_panic", Step: i, Msg: fmt.Sprintf("Attach(%06x,%06x) panicked: %s", s, e, sim.PanicString(pv))}
			}
			if aligned != (aerr == nil) {
				return &sim.Violation{Oracle: "attach_outcome", Step: i, Msg: fmt.Sprintf("Attach(%06x,%06x): aligned=%v but error=%v", s, e, aligned, aerr)}
			}
			if logLen() != 0 {
				return &sim.Violation{Oracle: "attach_touched_device", Step: i, Msg: "Attach accessed a device"}
			}
			if aligned {
				overlap := false
				for x := s >> 4; x <= e>>4; x++ {
					if owner[x] >= 0 {
						overlap = true
					}
					owner[x] = int8(dev)
					useReal[x] = real
				}
				if overlap {
					st.Probe("attach_overlap")
					nontrivial = true
				}
				st.ProbeIf(e == 0xFFFFFF, "top_of_space")
			} else {
				st.Fault("attach_rejected")
				env.FaultYield("op")
				nontrivial = true
			}
		case "poke":
			a := uint32(op.Arg(0)) & 0xFFFFFF
			own := owner[a>>4]
			if own < 0 {
				continue
			}
			if useReal[a>>4] {
				rd := reals[own]
				switch {
				case rd.hw:
					rd.data[a&0xFFFF-0x2000] = byte(op.Arg(1))
					sim.RecoverLib(func() { rd.mem.Write(a, byte(op.Arg(1))) })
				case a >= rd.offset && int(a-rd.offset) < len(rd.data):
					rd.data[a-rd.offset] = byte(op.Arg(1)) // the slice memory.RAM/ROM was made over
				}
			} else {
				devs[own].Poke(a, byte(op.Arg(1)))
			}
			st.Probe("device_changed_behind_the_bus")
			continue
		case "churn":
			ws, n, dv := uint32(op.Arg(0))&0xFFFFF0, int(op.Arg(1)), int(op.Arg(2))
			if n > 140000 {
				n = 140000
			}
			if dv < 0 || dv >= ndev {
				dv = 0
			}
			var cerr error
			p, pv := sim.RecoverLib(func() {
				for k := 0; k < n && cerr == nil; k++ {
					cerr = b.Attach(devs[(dv+k)%ndev], "bank", ws, ws+15)
				}
			})
			if p || cerr != nil {
				return &sim.Violation{Oracle: "attach_panic", Step: i, Msg: fmt.Sprintf("re-attaching the window %06x-%06x %d times: panic=%v (%s) err=%v", ws, ws+15, n, p, sim.PanicString(pv), cerr)}
			}
			last := int8((dv + n - 1) % ndev)
			owner[ws>>4] = last
			useReal[ws>>4] = false
			st.Probe("attach_churn")
			nontrivial = true
			// everything else is where it was: look at the window, its neighbours and the edges seen so far
			probe := []uint32{ws, ws + 15, (ws - 1) & 0xFFFFFF, (ws + 16) & 0xFFFFFF, 0, 0xFFFFFF, uint32(sc.C("region")) & 0xFFFFFF}
			for _, o := range sc.Ops[:i] {
				if o.K == "attach" || o.K == "fork" {
					probe = append(probe, uint32(o.Arg(1))&0xFFFFFF, uint32(o.Arg(2))&0xFFFFFF)
				}
			}
			for _, a := range probe {
				if v := spot(a); v != nil {
					v.Step = i
					v.Msg = fmt.Sprintf("after %d Attach calls on one bus: ", n) + v.Msg
					return v
				}
			}
		case "fork":
			// a copy of the Bus value is a second bus: what is attached to the copy must not
			// change the routing of the original (checked by every later op against the model)
			dev := int(op.Arg(0))
			if dev < 0 || dev >= ndev {
				dev = 0
			}
			s, e := uint32(op.Arg(1))&0xFFFFF0, uint32(op.Arg(2))&0xFFFFFF|0xF
			if e < s {
				continue
			}
			shadow := new(bus.Bus)
			*shadow = *b
			if p, pv := sim.RecoverLib(func() { _ = shadow.Attach(devs[dev], "shadow", s, e) }); p {
				return &sim.Violation{Oracle: "attach_panic", Step: i, Msg: "Attach on a copy of the bus: " + sim.PanicString(pv)}
			}
			st.Probe("bus_value_copied")
			// spot check right away at the edges of the range attached to the copy
			for _, a := range []uint32{s, e} {
				own := owner[a>>4]
				clearLogs()
				var got byte
				p, _ := sim.RecoverLib(func() { got = b.EaRead(a) })
				if own < 0 {
					if !p {
						return &sim.Violation{Oracle: "hole_not_loud", Step: i, Msg: fmt.Sprintf("after an Attach on a COPY of the bus, the original answers at %06x, which was never attached to it (returned %02x)", a, got)}
					}
					continue
				}
				if p || got != peek(own, a) {
					return &sim.Violation{Oracle: "routing", Step: i, Msg: fmt.Sprintf("after an Attach on a COPY of the bus, a read of the original at %06x (owner %d) gives %02x, want %02x", a, own, got, peek(own, a))}
				}
			}
		case "read", "write":
			a := uint32(op.Arg(0))
			val := byte(op.Arg(1))
			if a > 0xFFFFFF {
				// an address outside the 24-bit space was never attached
				var got byte
				p, _ := sim.RecoverLib(func() {
					if op.K == "read" {
						got = b.EaRead(a)
					} else {
						b.EaWrite(a, val)
					}
				})
				env.ObsBool(p)
				st.Fault("access_beyond_24_bits")
				nontrivial = true
				if !p {
					return &sim.Violation{Oracle: "hole_not_loud", Step: i, Msg: fmt.Sprintf("%s at %07x, beyond the 24-bit address space and therefore never attached, did not fail (returned %02x)", op.K, a, got)}
				}
				if logLen() != 0 {
					return &sim.Violation{Oracle: "hole_touched_device", Step: i, Msg: fmt.Sprintf("%s at %07x (beyond 24 bits) reached a device with a truncated address", op.K, a)}
				}
				continue
			}
			own := owner[a>>4]
			var want byte
			if own >= 0 {
				want = peek(own, a)
			}
			var got byte
			p, pv := sim.RecoverLib(func() {
				if op.K == "read" {
					got = b.EaRead(a)
				} else {
					b.EaWrite(a, val)
				}
			})
			env.ObsBool(p)
			env.ObsU64(uint64(got))
			if own < 0 {
				st.Fault("access_to_hole")
				nontrivial = true
				if !p {
					return &sim.Violation{Oracle: "hole_not_loud", Step: i, Msg: fmt.Sprintf("%s at unattached address %06x did not fail (returned %02x)", op.K, a, got)}
				}
				if logLen() != 0 {
					return &sim.Violation{Oracle: "hole_touched_device", Step: i, Msg: fmt.Sprintf("%s at unattached address %06x reached a device", op.K, a)}
				}
				env.FaultYield("op")
				continue
			}
			if p {
				return &sim.Violation{Oracle: "access_panic", Step: i, Msg: fmt.Sprintf("%s at attached address %06x (device %d) panicked: %s", op.K, a, own, sim.PanicString(pv))}
			}
			if bankPending >= 0 {
				// the register's Write callback re-attached the bank window: from now on it
				// belongs to that device
				owner[bankWin>>4] = bankPending
				useReal[bankWin>>4] = false
				bankPending = -1
				nontrivial = true
			}
			if useReal[a>>4] {
				// the library's own memory: no access log, the stored bytes are the witness
				if logLen() != 0 {
					return &sim.Violation{Oracle: "routing", Step: i, Msg: fmt.Sprintf("%s at %06x belongs to device %d (a memory.RAM/ROM) but a simulated device was called", op.K, a, own)}
				}
				rd := reals[own]
				if op.K == "read" && got != want {
					return &sim.Violation{Oracle: "read_value", Step: i, Msg: fmt.Sprintf("EaRead(%06x) returned %02x, device %d (memory.RAM/ROM) holds %02x", a, got, own, want)}
				}
				if op.K == "write" {
					wantAfter := val
					if rd.rom {
						wantAfter = want // memory.ROM ignores writes
					}
					var now byte
					if rd.hw {
						now = rd.mem.Read(a)
						rd.data[a&0xFFFF-0x2000] = now
					} else {
						now = rd.data[a-rd.offset]
					}
					if now != wantAfter {
						return &sim.Violation{Oracle: "write_value", Step: i, Msg: fmt.Sprintf("EaWrite(%06x,%02x): device %d now holds %02x there", a, val, own, now)}
					}
				}
				env.OpDone()
				continue
			}
			if logLen() != 1 || len(devs[own].Log) != 1 {
				var who []int
				for _, d := range devs {
					if len(d.Log) > 0 {
						who = append(who, d.ID)
					}
				}
				return &sim.Violation{Oracle: "routing", Step: i, Msg: fmt.Sprintf("%s at %06x must make exactly one call to device %d (most recently attached there); devices called: %v", op.K, a, own, who)}
			}
			ev := devs[own].Log[0]
			if ev.Addr != a || ev.Write != (op.K == "write") {
				return &sim.Violation{Oracle: "device_address", Step: i, Msg: fmt.Sprintf("%s at %06x: device %d received %s at %06x (must be the full unmodified bus address)", op.K, a, own, map[bool]string{true: "write", false: "read"}[ev.Write], ev.Addr)}
			}
			if op.K == "read" && got != want {
				return &sim.Violation{Oracle: "read_value", Step: i, Msg: fmt.Sprintf("EaRead(%06x) returned %02x, device %d holds %02x", a, got, own, want)}
			}
			if op.K == "write" && ev.Val != val {
				return &sim.Violation{Oracle: "write_value", Step: i, Msg: fmt.Sprintf("EaWrite(%06x,%02x): device received %02x", a, val, ev.Val)}
			}
		case "read24":
			if op.Arg(0) > 0xFFFFFF {
				continue
			}
			a := uint32(op.Arg(0)) & 0xFFFFFF
			if a&0xFFFF > 0xFFFD {
				continue // wrap behaviour at the end of a bank is not this property's subject
			}
			var want uint32
			hole := false
			for k := uint32(0); k < 3; k++ {
				own := owner[(a+k)>>4]
				if own < 0 {
					hole = true
				} else {
					want |= uint32(peek(own, a+k)) << (8 * k)
				}
			}
			var got uint32
			p, pv := sim.RecoverLib(func() { got = b.EaRead24_wrap(byte(a>>16), uint16(a)) })
			env.ObsBool(p)
			env.ObsU64(uint64(got))
			st.ProbeIf(a&0xF >= 0xE, "read24_straddles_segment")
			if hole {
				st.Fault("access_to_hole")
				nontrivial = true
				if !p {
					return &sim.Violation{Oracle: "hole_not_loud", Step: i, Msg: fmt.Sprintf("24-bit read at %06x touches an unattached address but did not fail (returned %06x)", a, got)}
				}
				continue
			}
			if p {
				return &sim.Violation{Oracle: "access_panic", Step: i, Msg: fmt.Sprintf("24-bit read at attached %06x panicked: %s", a, sim.PanicString(pv))}
			}
			if got != want {
				return &sim.Violation{Oracle: "read_value", Step: i, Msg: fmt.Sprintf("EaRead24_wrap(%06x) returned %06x; byte-wise reads through the owners give %06x", a, got, want)}
			}
			for _, d := range devs {
				for _, ev := range d.Log {
					if ev.Write || ev.Addr < a || ev.Addr > a+2 || owner[ev.Addr>>4] != int8(d.ID) || useReal[ev.Addr>>4] {
						return &sim.Violation{Oracle: "routing", Step: i, Msg: fmt.Sprintf("24-bit read at %06x accessed device %d at %06x (owner of that address: %d)", a, d.ID, ev.Addr, owner[ev.Addr>>4])}
					}
				}
			}
		case "dump":
			if op.Arg(0) > 0xFFFFFF {
				continue
			}
			s, e := uint32(op.Arg(0))&0xFFFFFF, uint32(op.Arg(1))&0xFFFFFF
			if e >= s && e-s > 4096 {
				continue
			}
			count := int(e-s) + 1
			if e < s {
				count = 0 // the range holds no address
				st.Probe("dump_empty_range")
				nontrivial = true
			}
			const guard = 8
			buf := make([]byte, count+guard)
			for j := range buf {
				buf[j] = 0x5A
			}
			want := make([]byte, count)
			attachedAny, holeAny, crossDev := false, false, false
			lastOwn := int8(-2)
			for j := 0; j < count; j++ {
				a := s + uint32(j)
				own := owner[a>>4]
				if own >= 0 {
					want[j] = peek(own, a)
					attachedAny = true
				} else {
					want[j] = 0x5A
					holeAny = true
				}
				if lastOwn != -2 && own != lastOwn {
					crossDev = true
				}
				lastOwn = own
			}
			var ret int
			p, pv := sim.RecoverLib(func() { ret = b.EaDump(s, e, buf) })
			env.ObsBool(p)
			env.ObsInt(ret)
			env.ObsBytes(buf)
			st.ProbeIf(s&0xF != 0, "dump_unaligned_start")
			st.ProbeIf(crossDev && !holeAny, "dump_cross_device")
			st.ProbeIf(crossDev && holeAny && attachedAny, "dump_cross_hole")
			st.ProbeIf(owner[s>>4] < 0 && attachedAny, "dump_starts_in_hole")
			if s&0xF != 0 || crossDev {
				nontrivial = true
			}
			if p {
				return &sim.Violation{Oracle: "dump_panic", Step: i, Msg: fmt.Sprintf("EaDump(%06x,%06x) panicked: %s", s, e, sim.PanicString(pv))}
			}
			if ret != count {
				return &sim.Violation{Oracle: "dump_count", Step: i, Msg: fmt.Sprintf("EaDump(%06x,%06x) returned %d, the range has %d addresses", s, e, ret, count)}
			}
			for j := 0; j < count; j++ {
				if buf[j] != want[j] {
					a := s + uint32(j)
					return &sim.Violation{Oracle: "dump_data", Step: i, Msg: fmt.Sprintf("EaDump(%06x,%06x): position %d (address %06x, owner %d) holds %02x, a single read would give %02x (5a = untouched)", s, e, j, a, owner[a>>4], buf[j], want[j])}
				}
			}
			for j := count; j < count+guard; j++ {
				if buf[j] != 0x5A {
					return &sim.Violation{Oracle: "dump_overrun", Step: i, Msg: "EaDump wrote beyond the range's positions"}
				}
			}
			for _, d := range devs {
				for _, ev := range d.Log {
					if ev.Write || ev.Addr < s || ev.Addr > e || owner[ev.Addr>>4] != int8(d.ID) || useReal[ev.Addr>>4] {
						return &sim.Violation{Oracle: "dump_device_call", Step: i, Msg: fmt.Sprintf("EaDump(%06x,%06x) made a %v access to device %d at %06x (owner of that address: %d)", s, e, map[bool]string{true: "write", false: "read"}[ev.Write], d.ID, ev.Addr, owner[ev.Addr>>4])}
					}
				}
			}
		}
		env.OpDone()
	}
	if nontrivial {
		st.MarkNontrivial()
	}
	h := uint64(0)
	for x := 0; x < len(owner); x += 97 {
		h = sim.HashU64(h, uint64(owner[x]+1))
	}
	st.State(h)
	return nil
}
