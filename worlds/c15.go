package worlds

import (
	"fmt"
	"io"
	"regexp"
	"strconv"
	"strings"

	"github.com/alttpo/snes/asm"

	"verif/sim"
)

// C15 — assembler listings reproduce exactly the bytes that were emitted.
// Seam: the caller's io.Writer (S4). The simulator chooses the history, the instants at
// which a listing is requested (after any op, before/after Finalize, after a refused emit),
// the kind, and the sink's behaviour (healthy / fails at write k / short write / dead).
type c15 struct{}

func init() { sim.Register(c15{}) }

func (c15) ID() string     { return "C15" }
func (c15) Level() string  { return "exploration" }
func (c15) QuickRuns() int { return 120000 }
func (c15) Rule() string {
	return "each evaluation is one generated emitter history with listing generation on (instructions, label references, labels, comments of length 0-300, data blocks of length 0,1,15,16,17,31,32,33,...,255, optional base, optional tight capacity, Finalize) with 1-5 listing requests (text or hex) placed at arbitrary instants, each through a simulated sink with a seeded fault plan; distinct = distinct scenario hash; non-trivial = a sink fault fired, or a listing was requested after a refused emit, or a data block longer than 16 bytes was listed"
}
func (c15) Assumptions() []string {
	return []string{
		"the text listing is parsed by line shape only (base $.., name:, ; comment, ; $addr + db payload, instruction line with '; $addr  bytes'); mnemonic and operand spelling are not checked",
		"how a data block is split over lines is free: adjacent data lines are merged before comparison",
		"a pending base directive with nothing issued after it may be absent from the listing",
		"a failing sink is not required to produce any particular error or partial output, only to leave the emitter unchanged and not to make the library panic",
		"comments are generated without '$' and newlines so that they cannot be mistaken for address lines",
	}
}
func (c15) Components() map[string][]string {
	return map[string][]string{"real": {"asm.Emitter incl. WriteTextTo/WriteHexTo, xbuf (instrumented copy)"}, "stub": {"SimSink stands in for the caller's io.Writer"}}
}

func (c15) Gen(r *sim.Rand, tier string, run uint64) *sim.Scenario {
	sc := &sim.Scenario{Cfg: map[string]int64{}}
	ops, size := genAsmHistory(r, 30, 700, true, false)
	// a few extra data blocks at the interesting lengths
	for i := 0; i < r.Intn(3); i++ {
		at := r.Intn(len(ops) + 1)
		d := genData(r, 255)
		size += len(d.B)
		ops = append(ops[:at], append([]sim.Op{d}, ops[at:]...)...)
	}
	if r.Chance(1, 2) {
		at := r.Intn(len(ops) + 1)
		ops = append(ops[:at], append([]sim.Op{{K: "finalize"}}, ops[at:]...)...)
	}
	for i := 0; i < r.Intn(3); i++ {
		// a measuring pass: a clone without a target is taken, fed an instruction, and dropped
		at := r.Intn(len(ops) + 1)
		ops = append(ops[:at], append([]sim.Op{{K: "trialclone"}}, ops[at:]...)...)
	}
	if r.Chance(1, 300) {
		// a program longer than 64 KiB (large tables)
		for i := 0; i < 3; i++ {
			d := sim.Op{K: "data", B: r.Bytes(sim.PickInt(r, 30000, 32768, 21850))}
			size += len(d.B)
			at := r.Intn(len(ops) + 1)
			ops = append(ops[:at], append([]sim.Op{d}, ops[at:]...)...)
		}
	}
	nl := r.Range(1, 5)
	for i := 0; i < nl; i++ {
		at := r.Intn(len(ops) + 1)
		if i == 0 {
			at = len(ops)
		}
		plan, k := 0, 0
		if r.Chance(1, 3) {
			plan = r.Range(1, 3)
			k = r.Intn(12)
			if r.Chance(1, 5) {
				plan = sim.SinkShortOnce
			} else if r.Chance(1, 5) {
				plan = sim.SinkErrOnce
			}
		}
		l := sim.Op{K: "listing", N: []int64{int64(r.Intn(2)), int64(plan), int64(k)}}
		ops = append(ops[:at], append([]sim.Op{l}, ops[at:]...)...)
	}
	if r.Chance(1, 12) && size > 2 && size < 0xF000 {
		// a base just below the end of a bank: addresses run across $xx:FFFF
		base := int64(r.Intn(255))<<16 | (0x10000 - int64(r.Range(1, size-1)))
		ops = append([]sim.Op{{K: "setbase", N: []int64{base}}}, ops...)
	} else if set, base := genBase(r, size+8); set {
		at := 0
		if r.Chance(1, 4) {
			// SetBase after labels/comments but before the first emission
			for at < len(ops) && (ops[at].K == "label" || ops[at].K == "comment" || ops[at].K == "asep" || ops[at].K == "arep") {
				at++
			}
		}
		ops = append(ops[:at], append([]sim.Op{{K: "setbase", N: []int64{int64(base)}}}, ops[at:]...)...)
	}
	sc.Cfg["cap"] = int64(size + 16)
	if r.Chance(1, 6) && size > 0 {
		sc.Cfg["cap"] = int64(r.Intn(size + 1))
	} else if r.Chance(1, 5) {
		// a block of the history goes through Clone/Append (with a discarded sibling clone)
		ops = withCloneSegment(r, ops, map[string]bool{"finalize": true, "setbase": true, "listing": true, "trialclone": true})
	}
	sc.Ops = ops
	return sc
}

type parsedItem struct {
	Kind  string
	Addr  uint32
	Bytes []byte
	Text  string
	Line  int
}

var (
	// tolerant of spacing, letter case and $ / 0x prefixes: the property fixes what a line
	// shows, not its typography
	reAddrLine = regexp.MustCompile(`^;\s*(?:\$|0x)([0-9a-fA-F]{6})$`)
	reInsTail  = regexp.MustCompile(`;\s*(?:\$|0x)?([0-9a-fA-F]{6})[:\s]\s*((?:[0-9a-fA-F]{2})(?:[ \t]+[0-9a-fA-F]{2})*)(?:[ \t]|$)`)
	reHexTok   = regexp.MustCompile(`(?:0x|\$)([0-9a-fA-F]{2})\s*,`)
	reDbTok    = regexp.MustCompile(`^(?:\$|0x)?([0-9a-fA-F]{2})$`)
	reDbLine   = regexp.MustCompile(`^\.?(?:db|byte|dcb)(?:\s+|$)`)
)

func parseTextListing(txt string) ([]parsedItem, error) {
	var items []parsedItem
	lines := strings.Split(txt, "\n")
	if len(lines) > 0 && lines[len(lines)-1] == "" {
		lines = lines[:len(lines)-1]
	}
	pendingAddr := int64(-1)
	for ln, line := range lines {
		trim := strings.TrimLeft(line, " \t")
		switch {
		case strings.HasPrefix(strings.ToLower(line), "base ") || strings.HasPrefix(strings.ToLower(line), "org "):
			f := strings.Fields(line)
			arg := ""
			if len(f) > 1 {
				arg = strings.TrimPrefix(strings.TrimPrefix(f[1], "$"), "0x")
			}
			v, err := strconv.ParseUint(arg, 16, 32)
			if err != nil {
				return nil, fmt.Errorf("line %d: bad base directive %q", ln, line)
			}
			items = append(items, parsedItem{Kind: "base", Addr: uint32(v), Line: ln})
		case line != "" && line[0] != ' ' && line[0] != '\t' && line[0] != '!' && strings.HasSuffix(line, ":"):
			items = append(items, parsedItem{Kind: "label", Text: line[:len(line)-1], Line: ln})
		case reDbLine.MatchString(strings.ToLower(trim)):
			if pendingAddr < 0 {
				return nil, fmt.Errorf("line %d: data line %q without a preceding address line", ln, line)
			}
			var b []byte
			payload := strings.TrimSpace(reDbLine.ReplaceAllString(strings.ToLower(trim), ""))
			if payload != "" {
				for _, t := range strings.FieldsFunc(payload, func(r rune) bool { return r == ',' || r == ' ' || r == '\t' }) {
					m := reDbTok.FindStringSubmatch(strings.TrimSpace(t))
					if m == nil {
						return nil, fmt.Errorf("line %d: bad data token %q in %q", ln, t, line)
					}
					v, _ := strconv.ParseUint(m[1], 16, 8)
					b = append(b, byte(v))
				}
			}
			items = append(items, parsedItem{Kind: "data", Addr: uint32(pendingAddr), Bytes: b, Line: ln})
			pendingAddr = -1
		case strings.HasPrefix(trim, ";"):
			if m := reAddrLine.FindStringSubmatch(trim); m != nil {
				v, _ := strconv.ParseUint(m[1], 16, 32)
				pendingAddr = int64(v)
				continue
			}
			t := trim[1:]
			t = strings.TrimPrefix(t, " ")
			items = append(items, parsedItem{Kind: "comment", Text: t, Line: ln})
		default:
			ms := reInsTail.FindAllStringSubmatch(line, -1)
			if len(ms) == 0 {
				return nil, fmt.Errorf("line %d: unrecognised listing line %q", ln, line)
			}
			m := ms[len(ms)-1]
			v, _ := strconv.ParseUint(m[1], 16, 32)
			var b []byte
			for _, t := range strings.Fields(m[2]) {
				x, _ := strconv.ParseUint(t, 16, 8)
				b = append(b, byte(x))
			}
			txt := line
			if idx := strings.LastIndex(line, m[0]); idx >= 0 {
				txt = line[:idx]
			}
			items = append(items, parsedItem{Kind: "ins", Addr: uint32(v), Bytes: b, Text: strings.TrimSpace(txt), Line: ln})
		}
	}
	if pendingAddr >= 0 {
		return nil, fmt.Errorf("address line without data line at end of listing")
	}
	return items, nil
}

func parseHexListing(txt string) []byte {
	var out []byte
	for _, line := range strings.Split(txt, "\n") {
		if i := strings.Index(line, "//"); i >= 0 {
			line = line[:i]
		}
		for _, m := range reHexTok.FindAllStringSubmatch(line, -1) {
			v, _ := strconv.ParseUint(m[1], 16, 8)
			out = append(out, byte(v))
		}
	}
	return out
}

func mergeData(items []parsedItem) []parsedItem {
	var out []parsedItem
	for _, it := range items {
		if it.Kind == "data" && len(out) > 0 && out[len(out)-1].Kind == "data" &&
			out[len(out)-1].Addr+uint32(len(out[len(out)-1].Bytes)) == it.Addr {
			out[len(out)-1].Bytes = append(out[len(out)-1].Bytes, it.Bytes...)
			continue
		}
		out = append(out, it)
	}
	return out
}

func expectedItems(m *asmModel) []listItem {
	var out []listItem
	for _, it := range m.Items {
		if it.Kind == "data" && len(out) > 0 && out[len(out)-1].Kind == "data" && out[len(out)-1].Addr+uint32(out[len(out)-1].Len) == it.Addr {
			out[len(out)-1].Len += it.Len
			continue
		}
		out = append(out, it)
	}
	if m.basePend {
		out = append(out, listItem{Kind: "base", Addr: m.Addr, Ghost: true})
	}
	return out
}

func doListing(e *asm.Emitter, kind int64, w io.Writer) (panicked bool, pmsg string, err error) {
	p, v := sim.RecoverLib(func() {
		if kind == 0 {
			err = e.WriteTextTo(w)
		} else {
			err = e.WriteHexTo(w)
		}
	})
	return p, sim.PanicString(v), err
}

// checkListing compares one healthy-sink listing with the model and the emitter's bytes.
func checkListing(kind int64, txt string, m *asmModel, bytes []byte, step int) *sim.Violation {
	if kind == 1 {
		got := parseHexListing(txt)
		if string(got) != string(bytes) {
			return &sim.Violation{Oracle: "hex_listing_bytes", Step: step,
				Msg: fmt.Sprintf("hex listing carries %d bytes, Bytes() has %d; first difference at %d", len(got), len(bytes), firstDiff(got, bytes))}
		}
		return nil
	}
	parsed, err := parseTextListing(txt)
	if err != nil {
		return &sim.Violation{Oracle: "text_listing_unparsable", Step: step, Msg: err.Error()}
	}
	parsed = mergeData(parsed)
	want := expectedItems(m)
	pi := 0
	for wi, w := range want {
		if pi >= len(parsed) {
			if w.Ghost {
				continue
			}
			return &sim.Violation{Oracle: "text_listing_sequence", Step: step,
				Msg: fmt.Sprintf("listing ends after %d items; expected item %d: %s at %#x (%s)", len(parsed), wi, w.Kind, w.Addr, w.Text)}
		}
		p := parsed[pi]
		if w.Ghost && p.Kind != "base" {
			continue
		}
		if p.Kind != w.Kind {
			return &sim.Violation{Oracle: "text_listing_sequence", Step: step,
				Msg: fmt.Sprintf("item %d (listing line %d) is a %s line, expected %s (%s at %#x): items appear out of the order in which they were issued", pi, p.Line, p.Kind, w.Kind, w.Text, w.Addr)}
		}
		switch w.Kind {
		case "base":
			if p.Addr != w.Addr {
				return &sim.Violation{Oracle: "text_listing_base", Step: step, Msg: fmt.Sprintf("base directive shows %#x, expected %#x", p.Addr, w.Addr)}
			}
		case "label":
			if p.Text != w.Text {
				return &sim.Violation{Oracle: "text_listing_label", Step: step, Msg: fmt.Sprintf("label line %q, expected %q", p.Text, w.Text)}
			}
		case "comment":
			if p.Text != w.Text {
				return &sim.Violation{Oracle: "text_listing_comment", Step: step, Msg: fmt.Sprintf("comment line %q, expected %q", p.Text, w.Text)}
			}
		case "ins", "data":
			if p.Addr != w.Addr {
				return &sim.Violation{Oracle: "text_listing_address", Step: step,
					Msg: fmt.Sprintf("%s line %d shows address %#x, its bytes sit at %#x", w.Kind, p.Line, p.Addr, w.Addr)}
			}
			o := int(w.Addr - m.Base)
			if o < 0 || o+w.Len > len(bytes) {
				return &sim.Violation{Oracle: "HARNESS_PANIC", Step: step, Msg: "model item outside emitted bytes"}
			}
			if string(p.Bytes) != string(bytes[o:o+w.Len]) {
				return &sim.Violation{Oracle: "text_listing_bytes", Step: step,
					Msg: fmt.Sprintf("%s line %d at %#x shows bytes %x, Bytes() holds %x there", w.Kind, p.Line, p.Addr, p.Bytes, bytes[o:o+w.Len])}
			}
			if w.Kind == "ins" {
				if tok, val, ok := operandTextDisagrees(p.Text, p.Bytes); ok {
					return &sim.Violation{Oracle: "text_listing_operand", Step: step,
						Msg: fmt.Sprintf("instruction line %d at %#x: the operand is written %s in %q but the bytes of the line are %x (operand %#x): the line shows other bytes than those emitted", p.Line, p.Addr, tok, p.Text, p.Bytes, val)}
				}
			}
		}
		pi++
	}
	if pi < len(parsed) {
		p := parsed[pi]
		return &sim.Violation{Oracle: "text_listing_extra", Step: step,
			Msg: fmt.Sprintf("listing has an extra %s line (line %d, addr %#x, %d bytes) that corresponds to nothing that was issued and accepted", p.Kind, p.Line, p.Addr, len(p.Bytes))}
	}
	return nil
}

var reOperandTok = regexp.MustCompile(`(?:\$|0x)([0-9a-fA-F]+)`)

// operandTextDisagrees: the assembly text of an instruction line writes its operand as one
// hex literal of exactly the operand's width, and that literal is not the operand the bytes
// of the same line carry. Relative branches, PER and block moves render something other than
// their raw operand and are left alone, as is any text without such a literal (label names).
func operandTextDisagrees(text string, b []byte) (string, uint32, bool) {
	n := len(b) - 1
	if n < 1 || n > 3 {
		return "", 0, false
	}
	switch b[0] {
	case 0x10, 0x30, 0x50, 0x70, 0x90, 0xB0, 0xD0, 0xF0, 0x80, 0x82, 0x62, 0x44, 0x54:
		return "", 0, false
	}
	var toks []string
	for _, m := range reOperandTok.FindAllStringSubmatch(text, -1) {
		if len(m[1]) == 2*n {
			toks = append(toks, m[1])
		} else {
			return "", 0, false // literals of another width: not a plain rendering of the operand
		}
	}
	if len(toks) != 1 {
		return "", 0, false
	}
	var val uint32
	for i := n; i >= 1; i-- {
		val = val<<8 | uint32(b[i])
	}
	v, err := strconv.ParseUint(toks[0], 16, 32)
	if err != nil || uint32(v) == val {
		return "", 0, false
	}
	return "$" + toks[0], val, true
}

func firstDiff(a, b []byte) int {
	for i := 0; i < len(a) && i < len(b); i++ {
		if a[i] != b[i] {
			return i
		}
	}
	if len(a) < len(b) {
		return len(a)
	}
	return len(b)
}

func (c15) Exec(sc *sim.Scenario, env *sim.Env) *sim.Violation {
	sim.Activate(env)
	defer sim.Deactivate()
	st := env.Stats
	env.SetWatchdog(uint64(len(sc.Ops)+4) * 8000000)
	capacity := int(sc.C("cap"))
	if capacity < 0 {
		capacity = 0
	}
	if capacity > 1<<18 {
		capacity = 1 << 18
	}
	{
		// the program has to lie inside the 24-bit address space (the generator sees to it;
		// shrinking may not): beyond $FFFFFF there are no addresses for a listing to show
		var base, total int64
		for _, op := range sc.Ops {
			if op.K == "setbase" {
				base = op.Arg(0) & 0xFFFFFF
			}
			total += int64(opSize(op))
		}
		if base+total > 1<<24 {
			return nil
		}
	}
	target, guard := mkTarget(capacity, sc.Seed&2 == 2)
	e := asm.NewEmitter(target, true)
	m := newAsmModel(true, capacity, true)
	refusedSoFar := false
	var seg cloneSeg
	seg.Nested = sc.Seed&8 != 0
	endSeg := func(i int) *sim.Violation {
		if !seg.active() {
			return nil
		}
		m.NoCap = false
		if m.Len > capacity {
			seg.end(&e)
			return &sim.Violation{Oracle: "", Step: i} // block does not fit: not this property's subject
		}
		if _, msg := seg.end(&e); msg != "" {
			return &sim.Violation{Oracle: "append_panic", Step: i, Msg: msg}
		}
		return nil
	}
	for i, op := range sc.Ops {
		st.SimOps++
		if op.K == "clone" {
			if !seg.active() {
				if msg := seg.begin(&e, capacity+16); msg != "" {
					return &sim.Violation{Oracle: "clone_panic", Step: i, Msg: msg}
				}
				m.NoCap = true
				st.Probe("block_through_clone")
				if sc.Seed&16 != 0 && seg.orig != nil && capacity > 0 && !m.basePend {
					// while the block is being generated into the clone, the caller notes something
					// on the original (a remark ahead of the block): it is issued before the Append,
					// so it stands before the block's lines (not done while a base directive is still pending:
					// original and clone would each flush it, and which of them should is not defined)
					cop := sim.Op{K: "comment", S: "block follows"}
					m.step(cop)
					if p, msg := asmApply(seg.orig, cop); p {
						return &sim.Violation{Oracle: "refusal_mismatch", Step: i, Msg: "Comment on the original while a clone is in flight panicked: " + msg}
					}
					st.Probe("original_used_while_clone_in_flight")
				}
			}
			continue
		}
		if op.K == "append" || ((op.K == "finalize" || op.K == "listing") && seg.active()) {
			if v := endSeg(i); v != nil {
				if v.Oracle == "" {
					return nil
				}
				return v
			}
			if op.K == "append" {
				continue
			}
		}
		if seg.active() {
			out := m.step(op)
			panicked, msg := asmApply(e, op)
			seg.mirror(op)
			env.ObsBool(panicked)
			if panicked != (out.Refused != "") {
				return &sim.Violation{Oracle: "refusal_mismatch", Step: i, Msg: fmt.Sprintf("op %s inside a cloned block: model refused=%q, library panicked=%v (%s)", op, out.Refused, panicked, msg)}
			}
			continue
		}
		switch op.K {
		case "trialclone":
			if !seg.active() {
				sim.RecoverLib(func() {
					if c := e.Clone(nil); c != nil {
						c.NOP()
					}
				})
				st.Probe("trial_clone_dropped")
			}
			continue
		case "finalize":
			var err error
			p, pv := sim.RecoverLib(func() { err = e.Finalize() })
			env.ObsBool(p)
			env.ObsErr(err)
			if p {
				return &sim.Violation{Oracle: "finalize_panic", Step: i, Msg: sim.PanicString(pv)}
			}
			continue
		case "listing":
			kind, plan, k := op.Arg(0)&1, int(op.Arg(1)), int(op.Arg(2))
			if plan < 0 || (plan > 3 && plan != sim.SinkShortOnce && plan != sim.SinkErrOnce) {
				plan = 0
			}
			pre := snapEmitter(e)
			if v := accessorViolation(pre, i, op); v != nil {
				return v
			}
			// reference listing through a healthy sink
			h0 := sim.NewSink(env, sim.SinkOK, 0)
			p, pmsg, err := doListing(e, kind, h0)
			if p {
				return &sim.Violation{Oracle: "listing_panic", Step: i, Msg: fmt.Sprintf("listing (kind %d) through a healthy sink panicked: %s", kind, pmsg)}
			}
			if err != nil {
				return &sim.Violation{Oracle: "listing_error", Step: i, Msg: fmt.Sprintf("listing through a healthy sink returned %v", err)}
			}
			mid := snapEmitter(e)
			if d := pre.diff(mid, true); d != "" || mid.Err != "" {
				return &sim.Violation{Oracle: "listing_altered_program", Step: i, Msg: "producing a listing changed the emitter: " + d + mid.Err}
			}
			if v := checkListing(kind, string(h0.All()), m, pre.Bytes, i); v != nil {
				return v
			}
			if k%3 == 0 {
				// the same listing into a writer that offers io.StringWriter / io.ByteWriter /
				// io.ReaderFrom (as bytes.Buffer, strings.Builder and os.File do)
				rs := &sim.RichSink{SimSink: sim.NewSink(env, sim.SinkOK, 0)}
				// the destination already holds something (an earlier routine's listing, say)
				held := 0
				if k%2 == 0 {
					head := []byte("; ---- previous content of the destination ----\n")
					for j := 0; j < 1+k%40; j++ {
						_, _ = rs.SimSink.Write(head)
					}
					held = len(rs.All())
				}
				p, pmsg, err := doListing(e, kind, rs)
				if p || err != nil {
					return &sim.Violation{Oracle: "listing_panic", Step: i, Msg: fmt.Sprintf("listing (kind %d) into a writer with optional io interfaces: panic=%v %s err=%v", kind, p, pmsg, err)}
				}
				if v := checkListing(kind, string(rs.All()[held:]), m, pre.Bytes, i); v != nil {
					v.Msg = "into a writer that also offers WriteString/WriteByte/ReadFrom: " + v.Msg
					return v
				}
				st.ProbeIf(rs.Upgrades > 0, "listing_used_optional_writer_interface")
			}
			if k%5 == 1 {
				// listing switched off: a nil writer. Nothing to write to, nothing written anywhere
				// (the process's standard output is watched by the globals snapshot, C18)
				// (whether the call then reports an error is not fixed by any property)
				if p, pmsg, _ := doListing(e, kind, nil); p {
					return &sim.Violation{Oracle: "listing_panic", Step: i, Msg: fmt.Sprintf("listing (kind %d) with a nil writer panicked: %s", kind, pmsg)}
				}
				st.Probe("listing_to_nil_writer")
			}
			st.ProbeIf(refusedSoFar, "listing_after_refusal")
			if refusedSoFar {
				st.MarkNontrivial()
			}
			st.ProbeIf(len(m.Refs) > 0, "listing_with_refs")
			if plan != sim.SinkOK {
				fs := sim.NewSink(env, plan, k)
				p, pmsg, ferr := doListing(e, kind, fs)
				if p {
					return &sim.Violation{Oracle: "listing_panic_sink_fault", Step: i, Msg: fmt.Sprintf("listing through a failing sink (plan %d at write %d) panicked: %s", plan, k, pmsg)}
				}
				st.ProbeIf(fs.Failed > 0 && len(fs.Writes) > 0, "sink_fail_midway")
				// a listing that reports success has delivered the listing: each byte once, in
				// order (what a listing that reports the writer's error has delivered is its own
				// business)
				if ferr == nil && fs.Failed > 0 {
					if got, full := string(fs.All()), string(h0.All()); got != full {
						return &sim.Violation{Oracle: "listing_garbled_by_fault", Step: i, Msg: fmt.Sprintf("the writer failed at write %d (plan %d) but the listing call reported success; the %d bytes the writer accepted are not the listing (%d bytes; first difference at byte %d)", k, plan, len(got), len(full), firstDiff([]byte(got), []byte(full)))}
					}
				}
				post := snapEmitter(e)
				if d := pre.diff(post, true); d != "" || post.Err != "" {
					return &sim.Violation{Oracle: "listing_altered_program", Step: i, Msg: "a listing through a failing sink changed the emitter: " + d + post.Err}
				}
				h1 := sim.NewSink(env, sim.SinkOK, 0)
				p, pmsg, err := doListing(e, kind, h1)
				if p || err != nil {
					return &sim.Violation{Oracle: "listing_after_fault", Step: i, Msg: fmt.Sprintf("healthy listing after a failed one: panic=%v %s err=%v", p, pmsg, err)}
				}
				if string(h0.All()) != string(h1.All()) {
					return &sim.Violation{Oracle: "listing_changed_after_fault", Step: i, Msg: "the listing produced after a failed listing differs from the one produced before it"}
				}
			}
			continue
		}
		before := snapEmitter(e)
		out := m.step(op)
		panicked, msg := asmApply(e, op)
		after := snapEmitter(e)
		resyncFlags(m, e, op, out)
		env.ObsBool(panicked)
		obsSnap(env, after)
		if v := accessorViolation(after, i, op); v != nil {
			return v
		}
		if !guardIntact(guard) {
			return &sim.Violation{Oracle: "wrote_beyond_target", Step: i, Msg: fmt.Sprintf("op %s: bytes behind the target slice were written", op)}
		}
		if panicked != (out.Refused != "") {
			return &sim.Violation{Oracle: "refusal_mismatch", Step: i, Msg: fmt.Sprintf("op %s: model refused=%q, library panicked=%v (%s)", op, out.Refused, panicked, msg)}
		}
		if panicked {
			refusedSoFar = true
			st.Fault("refused_" + out.Refused)
			env.FaultYield("op")
			_ = before
			continue
		}
		if op.K == "data" {
			n := len(op.B)
			switch {
			case n == 0, n == 1, n == 15, n == 16, n == 17, n == 32, n == 33:
				st.Probe(fmt.Sprintf("db_len_%d", n))
			case n > 64:
				st.Probe("db_len_gt64")
			}
			if n > 16 {
				st.MarkNontrivial()
			}
		}
	}
	st.State(sim.HashU64(sim.HashU64(uint64(m.Len), uint64(len(m.Items))), uint64(m.Addr)))
	return nil
}
