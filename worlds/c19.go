package worlds

import (
	"fmt"

	"github.com/alttpo/snes/asm"

	"verif/sim"
)

// C19 — emission is all-or-nothing at capacity; dry-run emitters track equally.
// Fault = capacity exhaustion placed inside an operation; the placement is enumerated
// (every capacity 0..S in the thorough tier), the history is sampled.
type c19 struct{}

func init() { sim.Register(c19{}) }

func (c19) ID() string     { return "C19" }
func (c19) Level() string  { return "fault_enumeration" }
func (c19) QuickRuns() int { return 16000 }
func (c19) Rule() string {
	return "each evaluation is one generated emitter history (<=40 ops: instructions of 1-4 bytes from the reflected method catalogue, data blocks, labels, label references, REP/SEP/Assume*, comments, optional base) executed against a list of target capacities (thorough: every capacity 0..S; quick: 0,1,S-4..S and 8 seeded ones) plus a nil-target/ample-target twin; distinct = distinct scenario hash; non-trivial = at least one emit was refused for capacity in the run"
}
func (c19) Assumptions() []string {
	return []string{
		"instruction sizes come from an independent naming-rule table (C03, the encodings themselves, is not claimed)",
		"tracked flags are not required to be unchanged after a refused REP/SEP: the property's refusal clause names bytes, length, program counter and labels",
		"listings of a nil-target emitter are outside the property and not requested",
	}
}
func (c19) Components() map[string][]string {
	return map[string][]string{"real": {"asm.Emitter (instrumented copy of /repo)"}, "stub": {"none: the target buffer capacity is the only seam"}}
}

func genAsmHistory(r *sim.Rand, maxOps int, maxSize int, withRefs bool, straight bool) ([]sim.Op, int) {
	var ops []sim.Op
	flags := uint8(0)
	size := 0
	n := r.Range(1, maxOps)
	nextLabel := int64(0)
	if r.Chance(1, 2) {
		// initial width assumption
		f := sim.Op{K: "asep", N: []int64{int64(sim.PickInt(r, 0x10, 0x20, 0x30))}}
		ops = append(ops, f)
		flags = applyFlagOp(flags, f)
	}
	for len(ops) < n {
		var op sim.Op
		switch x := r.Intn(100); {
		case x < 50:
			op = genIns(r, flags, false, straight)
		case x < 62:
			op = genData(r, 64)
		case x < 72:
			op = genFlagOp(r)
			flags = applyFlagOp(flags, op)
		case x < 80:
			if nextLabel > 0 && r.Chance(1, 8) {
				// a name that is taken already: refused, and nothing of it may stay behind
				op = sim.Op{K: "label", N: []int64{int64(r.Intn(int(nextLabel)))}}
			} else if nextLabel < int64(allLabelIdx) {
				op = sim.Op{K: "label", N: []int64{nextLabel}}
				nextLabel++
			} else {
				op = sim.Op{K: "ins", S: "NOP"}
			}
		case x < 92:
			if withRefs && len(asmRefs) > 0 {
				am := asmRefs[r.Intn(len(asmRefs))]
				op = sim.Op{K: "ref", S: am.Name, N: []int64{int64(r.Intn(allLabelIdx))}}
			} else {
				op = genIns(r, flags, false, straight)
			}
		default:
			op = genComment(r)
		}
		s := opSize(op)
		if size+s > maxSize {
			break
		}
		size += s
		ops = append(ops, op)
		// the same call issued twice in a row (identical comment, data block, instruction)
		if op.K != "label" && r.Chance(1, 15) && size+s <= maxSize {
			size += s
			ops = append(ops, op)
			if op.K == "rep" || op.K == "sep" || op.K == "arep" || op.K == "asep" {
				flags = applyFlagOp(flags, op)
			}
		}
	}
	return ops, size
}

func (c19) Gen(r *sim.Rand, tier string, run uint64) *sim.Scenario {
	sc := &sim.Scenario{Cfg: map[string]int64{}}
	ops, size := genAsmHistory(r, 40, 200, true, false)
	sc.Cfg["gentext"] = int64(r.Intn(2))
	if r.Chance(1, 4) && len(ops) >= 2 {
		// a block of calls emitted through Clone and appended back: it must fit, or be refused,
		// as a whole
		a := r.Intn(len(ops))
		b := a + 1 + r.Intn(len(ops)-a)
		emittedBefore := 0
		for _, op := range ops[:a] {
			emittedBefore += opSize(op)
		}
		var out []sim.Op
		out = append(out, ops[:a]...)
		out = append(out, sim.Op{K: "clone"})
		if emittedBefore == 0 && r.Chance(1, 2) {
			// the clone is re-based before its first emission (a routine assembled for another
			// address), possibly below the parent's own base
			out = append(out, sim.Op{K: "setbase", N: []int64{int64(sim.PickInt(r, 0x7E2000, 0x000100, 0x008000, r.Intn(1<<24)))}})
		}
		out = append(out, ops[a:b]...)
		out = append(out, sim.Op{K: "append"})
		out = append(out, ops[b:]...)
		ops = out
	}
	if r.Chance(1, 10) && size > 2 {
		// a base close to the end of a bank: the program counter runs across $xx:FFFF
		base := int64(r.Intn(255))<<16 | (0x10000 - int64(r.Range(1, size-1)))
		ops = append([]sim.Op{{K: "setbase", N: []int64{base}}}, ops...)
	} else if set, base := genBase(r, size+8); set {
		ops = append([]sim.Op{{K: "setbase", N: []int64{int64(base)}}}, ops...)
	}
	if r.Chance(1, 12) && len(ops) > 3 {
		// a second part assembled for another address into the same buffer (a ROM routine followed
		// by one that runs from WRAM): SetBase in the middle of the program. Emission simply
		// continues in the buffer; only the program counter moves
		at := r.Range(2, len(ops)-1)
		if ops[at].K != "append" && ops[at-1].K != "clone" {
			nb := int64(sim.PickInt(r, 0x7E2000, 0x7F0000, 0x008000, 0x000100, r.Intn(1<<24)))
			out := append([]sim.Op{}, ops[:at]...)
			out = append(out, sim.Op{K: "setbase", N: []int64{nb}})
			ops = append(out, ops[at:]...)
		}
	}
	var caps []int64
	if tier == "thorough" {
		for c := 0; c <= size; c++ {
			caps = append(caps, int64(c))
		}
	} else {
		seen := map[int64]bool{}
		add := func(c int64) {
			if c >= 0 && c <= int64(size) && !seen[c] {
				seen[c] = true
				caps = append(caps, c)
			}
		}
		add(0)
		add(1)
		for d := int64(0); d <= 4; d++ {
			add(int64(size) - d)
		}
		for i := 0; i < 8; i++ {
			add(int64(r.Intn(size + 1)))
		}
	}
	sc.Ops = append([]sim.Op{{K: "caps", N: caps}}, ops...)
	return sc
}

func (c19) Exec(sc *sim.Scenario, env *sim.Env) *sim.Violation {
	sim.Activate(env)
	defer sim.Deactivate()
	st := env.Stats
	gentext := sc.C("gentext") != 0
	var caps []int64
	var ops []sim.Op
	total := 0
	for _, op := range sc.Ops {
		if op.K == "caps" {
			caps = append(caps, op.N...)
			continue
		}
		ops = append(ops, op)
		total += opSize(op)
	}
	// a base set after bytes were emitted: addresses and buffer offsets part company, which
	// Finalize is not asked to cope with (C06: "set at most once, before the first emission")
	midBase := false
	for i, op := range ops {
		if op.K == "setbase" && i > 0 {
			for _, o := range ops[:i] {
				if opSize(o) > 0 {
					midBase = true
				}
			}
		}
	}
	if midBase {
		st.Probe("base_set_again_after_emission")
	}
	env.SetWatchdog(uint64(len(ops)+1) * uint64(len(caps)+2) * 400000)

	for _, c := range caps {
		if c < 0 {
			continue
		}
		capacity := int(c)
		spare := (sc.Seed>>7+uint64(capacity))&1 == 1
		target, guard := mkTarget(capacity, spare)
		// in place: the target is a window at the start of a larger image, and a block that goes
		// through Clone is emitted straight into that image from the first free byte on (past
		// the end of the window if the block is too long: the Append must still refuse it)
		inplace := (sc.Seed>>9+uint64(capacity))&3 == 0
		var image []byte
		if inplace {
			image = make([]byte, capacity+total+64)
			target, guard = image[:capacity], nil
			st.Probe("clone_block_in_place")
		}
		for j := range target {
			target[j] = 0xA5 ^ byte(j)
		}
		e := asm.NewEmitter(target, gentext)
		m := newAsmModel(true, capacity, gentext)
		refusals := 0
		var orig *asm.Emitter // set while a block is being emitted into a clone
		var mSnap *asmModel
		var eSnap asmSnap
		for i, op := range ops {
			if op.K == "clone" {
				if orig != nil {
					continue
				}
				eSnap = snapEmitter(e)
				var c *asm.Emitter
				blockTarget := make([]byte, total+16)
				if (sc.Seed>>11)&1 == 1 {
					// a scratch buffer just large enough for the block (the parent may well have
					// emitted more than that already)
					bs := 0
					for _, o := range ops[i+1:] {
						if o.K == "append" {
							break
						}
						bs += opSize(o)
					}
					blockTarget = make([]byte, bs+int(sc.Seed>>12)&3)
					st.Probe("clone_block_scratch_fits_tightly")
				}
				if inplace {
					blockTarget = image[e.Len():]
				}
				if p, pv := sim.RecoverLib(func() { c = e.Clone(blockTarget) }); p || c == nil {
					return &sim.Violation{Oracle: "clone_panic", Step: i, Msg: sim.PanicString(pv)}
				}
				mSnap = m.clone()
				m.NoCap = true
				orig, e = e, c
				st.Probe("block_through_clone")
				continue
			}
			if op.K == "append" {
				if orig == nil {
					continue
				}
				blockSize := m.Len - mSnap.Len
				fits := mSnap.Len+blockSize <= capacity
				p, pv := sim.RecoverLib(func() { orig.Append(e) })
				e, orig = orig, nil
				m.NoCap = false
				after := snapEmitter(e)
				st.SimOps++
				env.ObsBool(p)
				if v := accessorViolation(after, i, op); v != nil {
					return v
				}
				if p != !fits {
					return &sim.Violation{Oracle: "refusal_mismatch", Step: i, Msg: fmt.Sprintf("cap=%d len=%d: Append of a %d-byte block: expected refused=%v, library panicked=%v (%s)", capacity, mSnap.Len, blockSize, !fits, p, sim.PanicString(pv))}
				}
				if p {
					refusals++
					st.Fault("cap_refusal:append")
					if d := eSnap.diff(after, false); d != "" {
						return &sim.Violation{Oracle: "refusal_not_atomic", Step: i, Msg: fmt.Sprintf("cap=%d: a block of %d bytes was refused at Append but the emitter changed: %s", capacity, blockSize, d)}
					}
					m = mSnap // the block is refused as a whole
					m.Flags = after.Flags
					continue
				}
				if after.Len != m.Len || after.PC != m.Addr {
					return &sim.Violation{Oracle: "accepted_state", Step: i, Msg: fmt.Sprintf("cap=%d after Append: Len=%d PC=%#x, model Len=%d PC=%#x", capacity, after.Len, after.PC, m.Len, m.Addr)}
				}
				continue
			}
			if orig != nil {
				// inside the block: emitted into the roomy clone; only outcome and pc are compared
				out := m.step(op)
				panicked, msg := asmApply(e, op)
				st.SimOps++
				env.ObsBool(panicked)
				if panicked != (out.Refused != "") {
					return &sim.Violation{Oracle: "refusal_mismatch", Step: i, Msg: fmt.Sprintf("cap=%d op %s inside a cloned block: model refused=%q, library panicked=%v (%s)", capacity, op, out.Refused, panicked, msg)}
				}
				if pc := e.PC(); !panicked && pc != m.Addr {
					return &sim.Violation{Oracle: "accepted_state", Step: i, Msg: fmt.Sprintf("cap=%d op %s inside a cloned block: PC=%#x, model %#x", capacity, op, pc, m.Addr)}
				}
				continue
			}
			before := snapEmitter(e)
			tbefore := append([]byte{}, target...)
			out := m.step(op)
			panicked, msg := asmApply(e, op)
			after := snapEmitter(e)
			resyncFlags(m, e, op, out)
			st.SimOps++
			if v := accessorViolation(after, i, op); v != nil {
				return v
			}
			env.ObsBool(panicked)
			obsSnap(env, after)
			if !guardIntact(guard) {
				return &sim.Violation{Oracle: "wrote_beyond_target", Step: i, Msg: fmt.Sprintf("cap=%d op %s: bytes behind the target slice (cap(target) > len(target)) were written", capacity, op)}
			}
			if after.Len > after.Cap {
				return &sim.Violation{Oracle: "len_exceeds_cap", Step: i, Msg: fmt.Sprintf("cap=%d after %s: Len()=%d > Cap()=%d", capacity, op, after.Len, after.Cap)}
			}
			if after.Cap != capacity {
				return &sim.Violation{Oracle: "cap_changed", Step: i, Msg: fmt.Sprintf("cap=%d after %s: Cap()=%d", capacity, op, after.Cap)}
			}
			wantRefused := out.Refused != ""
			if panicked != wantRefused {
				return &sim.Violation{Oracle: "refusal_mismatch", Step: i,
					Msg: fmt.Sprintf("cap=%d len=%d op %s (size %d): expected refused=%v (%s), library panicked=%v (%s)", capacity, before.Len, op, opSize(op), wantRefused, out.Refused, panicked, msg)}
			}
			if panicked {
				refusals++
				if out.Refused == "cap" {
					short := before.Len + opSize(op) - capacity
					tag := "4+"
					if short <= 3 {
						tag = fmt.Sprint(short)
					}
					st.Fault(fmt.Sprintf("cap_refusal:%s:short%s", op.K, tag))
					env.FaultYield("op")
				}
				if d := before.diff(after, false); d != "" {
					return &sim.Violation{Oracle: "refusal_not_atomic", Step: i,
						Msg: fmt.Sprintf("cap=%d op %s refused (%s) but state changed: %s", capacity, op, msg, d)}
				}
				if string(tbefore) != string(target) {
					return &sim.Violation{Oracle: "refusal_wrote_target", Step: i,
						Msg: fmt.Sprintf("cap=%d len=%d op %s refused (%s) but bytes of the target buffer were written (not refused as a whole)", capacity, before.Len, op, msg)}
				}
				continue
			}
			if after.Len != m.Len || after.PC != m.Addr {
				return &sim.Violation{Oracle: "accepted_state", Step: i,
					Msg: fmt.Sprintf("cap=%d after accepted %s: Len=%d PC=%#x, model Len=%d PC=%#x", capacity, op, after.Len, after.PC, m.Len, m.Addr)}
			}
			if string(after.Bytes[:before.Len]) != string(before.Bytes) {
				return &sim.Violation{Oracle: "earlier_bytes_changed", Step: i, Msg: fmt.Sprintf("cap=%d op %s modified bytes emitted earlier", capacity, op)}
			}
			for n, v := range after.Labels {
				mv, ok := m.Labels[n]
				if (ok && int64(mv) != v) || (!ok && v != -1) {
					return &sim.Violation{Oracle: "label_state", Step: i, Msg: fmt.Sprintf("cap=%d after %s: label %s = %#x, model %#x (defined=%v)", capacity, op, n, v, mv, ok)}
				}
			}
		}
		if orig != nil {
			e, orig = orig, nil // an unfinished block is simply dropped
			m = mSnap
			m.NoCap = false
		}
		// a refused label-reference instruction must leave no trace either: Finalize sees only
		// the references of instructions that were accepted
		if !midBase {
			wantOK, _ := m.finalizeExpect()
			var ferr error
			p, pv := sim.RecoverLib(func() { ferr = e.Finalize() })
			env.ObsBool(p)
			env.ObsErr(ferr)
			if p {
				return &sim.Violation{Oracle: "finalize_after_refusals_panic", Step: len(ops), Msg: fmt.Sprintf("cap=%d: Finalize after %d refused emits panicked: %s", capacity, refusals, sim.PanicString(pv))}
			}
			if (ferr == nil) != wantOK {
				return &sim.Violation{Oracle: "finalize_after_refusals", Step: len(ops), Msg: fmt.Sprintf("cap=%d: Finalize returned %v, but with only the accepted instructions' references it should be ok=%v (a refused instruction left a reference behind, or an accepted one lost it)", capacity, ferr, wantOK)}
			}
		}
		if refusals > 0 {
			st.Probe("capacity_with_refusal")
		} else {
			st.Probe("capacity_without_refusal")
		}
		st.State(sim.HashU64(sim.HashU64(uint64(m.Len), uint64(m.Addr)), uint64(m.Flags)))
	}

	// twin: nil-target emitter vs ample-target emitter, same calls
	nilE := asm.NewEmitter(nil, gentext)
	ampleT, _ := mkTarget(total+16, sc.Seed&1 == 1)
	ample := asm.NewEmitter(ampleT, gentext)
	var nilOrig *asm.Emitter
	for i, op := range ops {
		if op.K == "clone" {
			if nilOrig == nil {
				var c *asm.Emitter
				if p, pv := sim.RecoverLib(func() { c = nilE.Clone(nil) }); p || c == nil {
					return &sim.Violation{Oracle: "clone_panic", Step: i, Msg: "Clone(nil) of a nil-target emitter: " + sim.PanicString(pv)}
				}
				nilOrig, nilE = nilE, c
			}
			continue
		}
		if op.K == "append" {
			if nilOrig != nil {
				if p, pv := sim.RecoverLib(func() { nilOrig.Append(nilE) }); p {
					return &sim.Violation{Oracle: "twin_refusal", Step: i, Msg: "Append between nil-target emitters panicked: " + sim.PanicString(pv)}
				}
				nilE, nilOrig = nilOrig, nil
				a, b := snapEmitter(nilE), snapEmitter(ample)
				if a.PC != b.PC || a.Flags != b.Flags {
					return &sim.Violation{Oracle: "twin_pc_flags", Step: i, Msg: fmt.Sprintf("after Append of a dry-run block: nil-target PC=%#x flags=%#x, real PC=%#x flags=%#x", a.PC, a.Flags, b.PC, b.Flags)}
				}
				for n, v := range a.Labels {
					if b.Labels[n] != v {
						return &sim.Violation{Oracle: "twin_label", Step: i, Msg: fmt.Sprintf("after Append of a dry-run block: label %s nil-target=%#x real=%#x", n, v, b.Labels[n])}
					}
				}
			}
			continue
		}
		if (sc.Seed>>13+uint64(i))%7 == 0 {
			// a trial block: measured in a clone of the measuring emitter and thrown away (the
			// other of two encodings was shorter); the measuring emitter is where it was
			sim.RecoverLib(func() {
				if t := nilE.Clone(nil); t != nil {
					t.NOP()
					t.SEP(0x30)
					t.Label("trial_block_label")
				}
			})
			st.Probe("trial_clone_of_measuring_emitter")
		}
		p1, m1 := asmApply(nilE, op)
		p2, m2 := asmApply(ample, op)
		st.SimOps += 2
		a, b := snapEmitter(nilE), snapEmitter(ample)
		if v := accessorViolation(a, i, op); v != nil {
			return v
		}
		if v := accessorViolation(b, i, op); v != nil {
			return v
		}
		env.ObsBool(p1)
		env.ObsU64(uint64(a.PC))
		if p1 != p2 {
			return &sim.Violation{Oracle: "twin_refusal", Step: i, Msg: fmt.Sprintf("op %s: nil-target panicked=%v (%s), ample-target panicked=%v (%s)", op, p1, m1, p2, m2)}
		}
		if a.PC != b.PC || a.Flags != b.Flags {
			return &sim.Violation{Oracle: "twin_pc_flags", Step: i, Msg: fmt.Sprintf("after %s: nil-target PC=%#x flags=%#x, real PC=%#x flags=%#x", op, a.PC, a.Flags, b.PC, b.Flags)}
		}
		for n, v := range a.Labels {
			if b.Labels[n] != v {
				return &sim.Violation{Oracle: "twin_label", Step: i, Msg: fmt.Sprintf("after %s: label %s nil-target=%#x real=%#x", op, n, v, b.Labels[n])}
			}
		}
		if a.Len != 0 || len(a.Bytes) != 0 {
			return &sim.Violation{Oracle: "twin_nil_len", Step: i, Msg: fmt.Sprintf("after %s: nil-target emitter reports Len=%d", op, a.Len)}
		}
	}
	// measuring with Clone(nil) of a *buffered* parent: the first half of the history goes into
	// a parent with a buffer, the rest into parent.Clone(nil), which has no target: it must
	// accept everything, track pc/labels/flags like a real emitter, and leave the parent alone
	{
		half := len(ops) / 2
		// the reference emitter first: its length after the first half sizes the parent's
		// buffer, which leaves 0, 1, 4 or plenty of bytes of room behind the first half
		ref := asm.NewEmitter(make([]byte, total+16), gentext)
		var refPanics []bool
		for _, op := range ops[:half] {
			if op.K == "clone" || op.K == "append" {
				continue
			}
			p2, _ := asmApply(ref, op)
			refPanics = append(refPanics, p2)
		}
		room := []int{0, 1, 4, total + 16}[(sc.Seed>>5)&3]
		pt, pguard := mkTarget(ref.Len()+room, true)
		parent := asm.NewEmitter(pt, gentext)
		ok := true
		k := 0
		for _, op := range ops[:half] {
			if op.K == "clone" || op.K == "append" {
				continue
			}
			p1, _ := asmApply(parent, op)
			if p1 != refPanics[k] {
				ok = false
				break
			}
			k++
		}
		if ok {
			var c *asm.Emitter
			if p, pv := sim.RecoverLib(func() { c = parent.Clone(nil) }); p || c == nil {
				return &sim.Violation{Oracle: "clone_panic", Step: half, Msg: "Clone(nil) of a buffered emitter: " + sim.PanicString(pv)}
			}
			before := snapEmitter(parent)
			ptCopy := append([]byte{}, pt[:cap(pt)]...)
			for i, op := range ops[half:] {
				if op.K == "clone" || op.K == "append" {
					continue
				}
				p1, m1 := asmApply(c, op)
				p2, m2 := asmApply(ref, op)
				st.SimOps += 2
				if p1 != p2 {
					return &sim.Violation{Oracle: "twin_refusal", Step: half + i, Msg: fmt.Sprintf("op %s: Clone(nil) measuring emitter panicked=%v (%s), real emitter panicked=%v (%s)", op, p1, m1, p2, m2)}
				}
				a, b := snapEmitter(c), snapEmitter(ref)
				if v := accessorViolation(a, half+i, op); v != nil {
					return v
				}
				if a.PC != b.PC || a.Flags != b.Flags {
					return &sim.Violation{Oracle: "twin_pc_flags", Step: half + i, Msg: fmt.Sprintf("after %s: Clone(nil) measuring emitter PC=%#x flags=%#x, real PC=%#x flags=%#x", op, a.PC, a.Flags, b.PC, b.Flags)}
				}
				for n, v := range a.Labels {
					if b.Labels[n] != v {
						return &sim.Violation{Oracle: "twin_label", Step: half + i, Msg: fmt.Sprintf("after %s: label %s measuring=%#x real=%#x", op, n, v, b.Labels[n])}
					}
				}
				for n, v := range b.Labels {
					if av, ok := a.Labels[n]; !ok || av != v {
						return &sim.Violation{Oracle: "twin_label", Step: half + i, Msg: fmt.Sprintf("after %s: label %s is at %#x in the real emitter; the Clone(nil) measuring emitter has it: %v (%#x)", op, n, v, ok, av)}
					}
				}
			}
			if d := before.diff(snapEmitter(parent), true); d != "" {
				return &sim.Violation{Oracle: "clone_not_isolated", Step: len(ops), Msg: "emitting into Clone(nil) changed the buffered parent: " + d}
			}
			if string(ptCopy) != string(pt[:cap(pt)]) || !guardIntact(pguard) {
				return &sim.Violation{Oracle: "clone_not_isolated", Step: len(ops), Msg: "emitting into Clone(nil) wrote into the parent's target buffer"}
			}
			st.Probe("measuring_clone_of_buffered_parent")
			// handing the measured block back: whatever Append makes of a block without bytes
			// (accept it or refuse it), the emitted bytes never exceed the capacity
			sim.RecoverLib(func() { parent.Append(c) })
			after := snapEmitter(parent)
			if v := accessorViolation(after, len(ops), sim.Op{K: "append"}); v != nil {
				return v
			}
			if after.Len > after.Cap || len(after.Bytes) != after.Len {
				return &sim.Violation{Oracle: "len_exceeds_cap", Step: len(ops), Msg: fmt.Sprintf("after Append of a Clone(nil) block (measured %d bytes) into a parent with %d of %d bytes used: Len()=%d Cap()=%d len(Bytes())=%d", int(snapEmitter(c).PC-before.PC), before.Len, before.Cap, after.Len, after.Cap, len(after.Bytes))}
			}
			if len(after.Bytes) < before.Len || string(after.Bytes[:before.Len]) != string(before.Bytes) || !guardIntact(pguard) {
				return &sim.Violation{Oracle: "append_damaged_parent", Step: len(ops), Msg: "Append of a Clone(nil) block changed bytes the parent had emitted, or wrote behind its target"}
			}
		}
	}
	st.Probe("twin_checked")
	return nil
}
