package worlds

import (
	"bufio"
	"bytes"
	"fmt"
	"github.com/alttpo/snes/emulator/cpu65c816"
	"io"
	"strings"

	"verif/sim"
)

// C14 — execution tracing is truthful and does not perturb execution.
// Twin worlds A (traced) and B (untraced) of the same scenario; a third pass records, from
// outside, what each instruction looked like just before it executed. The simulator chooses
// the program and start state, the budget and target, and the behaviour of the observer
// attached at the seam (healthy / failing at line k / short-writing / dead sink, with or
// without Reserve/Commit).
type c14 struct{}

func init() { sim.Register(c14{}) }

func (c14) ID() string     { return "C14" }
func (c14) Level() string  { return "exploration" }
func (c14) QuickRuns() int { return 4800 }
func (c14) Rule() string {
	return "each evaluation is one program (20-60 generated instructions: random opcodes under tracked widths, REP/SEP switches, constructed backward loops, forward branches, BRL both ways, WDM, STP, PER/PEA/PEI) with a seeded start state (all four width combinations, E, D low byte, DBR, SP) and seeded memory fill, run three times: traced (emulator.System.RunUntil with a simulated Logger, or cpualt DisassembleCurrentPC before each Step), untraced, and an externally recorded reference pass; distinct = distinct scenario hash; non-trivial = the sink injected a fault, or a backward branch was traced, or the run ended on the target"
}
func (c14) Assumptions() []string {
	return []string{
		"a run in which Step panics in both the traced and the untraced world (unclaimed C08: never crashes) is discarded and counted, not reported; a panic in only one of them is reported",
		"operand renderings are compared after removing blanks and lower-casing; the pinned tree's stack-relative spellings ('$dd,sn', '$(dd,sn),y'), 'jmp' for jml, 'pei $dd', and BRK shown with or without its signature byte are accepted as dialect",
		"for relative branches the line must contain the destination as a 4-digit hex number; how the raw displacement is shown is free",
		"bus.Bus.EA / bus.Bus.Write (debug latches) are not part of the compared state",
		"the first column of a cpu65c816 trace line (previous step's cycle count) is not mentioned by the property and is ignored",
	}
}
func (c14) Components() map[string][]string {
	return map[string][]string{
		"real": {"emulator.System (CreateEmulator, RunUntil, Logger/Reserver/Committer path)", "cpu65c816.CPU + DisassembleCurrentPC", "cpualt.CPU + DisassembleCurrentPC", "xbuf", "bus.Bus", "memory.RAM/FakeHW"},
		"stub": {"SimSink/RCSink as the Logger", "SimMem behind the ranges CreateEmulator leaves unattached, and behind the whole space for bare cpualt"},
	}
}

func (c14) Gen(r *sim.Rand, tier string, run uint64) *sim.Scenario {
	sc := &sim.Scenario{Cfg: map[string]int64{}}
	kind := 0
	switch x := r.Intn(10); {
	case x < 3:
		kind = 1 // bare cpualt, DisassembleCurrentPC before each Step
	case x < 5:
		kind = 2 // bare cpu65c816 on bus.Bus + SimMem, DisassembleCurrentPC before each Step
	}
	sc.Cfg["kind"] = int64(kind)
	genStartState(r, sc.Cfg, kind)
	sc.Ops = genProgram(r, r.Range(20, 60), byte(sc.Cfg["p"]), byte(sc.Cfg["e"]))
	if r.Chance(1, 5) {
		// place the program so that one of its instructions starts on the last bytes of the
		// bank ($FFFD-$FFFF): operand fetches and the trace must wrap the same way
		k := r.Intn(len(sc.Ops))
		off := 0
		for _, op := range sc.Ops[:k] {
			off += len(op.B)
		}
		edge := int64(sim.PickInt(r, 0xFFFD, 0xFFFE, 0xFFFF, 0xFFFE))
		if int64(off) < edge {
			bank := sc.Cfg["pc"] & 0xFF0000
			if kind == 0 {
				bank = int64(sim.PickInt(r, 0x7E0000, 0x7E0000, 0x000000, 0x010000, 0x7F0000))
			}
			sc.Cfg["pc"] = bank | (edge - int64(off))
		}
	}
	plen := len(programBytes(sc))
	sc.Cfg["budget"] = int64(sim.PickInt(r, 200, 500, 1000, 2000, r.Range(0, 3000)))
	// target: the k-th byte of the program region (often an instruction boundary), or never reached
	switch r.Intn(4) {
	case 0:
		sc.Cfg["target"] = 0xFFFFFF
	case 1:
		sc.Cfg["target"] = sc.Cfg["pc"]
	default:
		pc := sc.Cfg["pc"]
		sc.Cfg["target"] = pc&0xFF0000 | (pc+int64(r.Intn(plen+1)))&0xFFFF
	}
	sc.Cfg["sink"] = 0
	if r.Chance(1, 3) {
		sc.Cfg["sink"] = int64(r.Range(1, 3))
		sc.Cfg["sinkk"] = int64(r.Intn(40))
		if kind == 0 && r.Chance(1, 6) {
			sc.Cfg["sink"] = sim.SinkPanic // the Logger panics at write k: the caller's own business, on the caller's goroutine
		}
	}
	sc.Cfg["rc"] = int64(r.Intn(2))
	if sc.Cfg["sink"] == 0 && r.Chance(1, 4) {
		sc.Cfg["rc"] = 2 // the Logger is a *bufio.Writer (which also has AvailableBuffer, WriteString, ReadFrom)
		sc.Cfg["bufsz"] = int64(sim.PickInt(r, 16, 64, 100, 256, 4096))
	}
	if kind == 0 && r.Chance(1, 8) {
		// code running up to the last byte of an attached window, with nothing attached behind
		// it (the unattached ranges stay unattached in this variant): a tracer that reads more
		// than the instruction's own bytes fails where the untraced run does not
		simple := []byte{0xEA, 0xE8, 0xC8, 0x1A, 0x3A, 0x18, 0x38, 0xAA, 0xA8, 0x8A, 0x98, 0xB8}
		var ops []sim.Op
		total := 0
		for i := 0; i < r.Range(1, 6); i++ {
			ops = append(ops, sim.Op{K: "i", B: []byte{simple[r.Intn(len(simple))]}})
			total++
		}
		tail := r.Intn(3)
		switch tail {
		case 0: // bra back to the start: last byte of the window is the displacement
			total += 2
			ops = append(ops, sim.Op{K: "i", B: []byte{0x80, byte(int8(-total))}})
		case 1: // jmp abs back to the start
			total += 3
		default: // a one-byte instruction on the very last byte, then the window ends
			ops = append(ops, sim.Op{K: "i", B: []byte{0x60}}) // rts
			total++
		}
		win := int64(sim.PickInt(r, 0x707FFF, 0x717FFF, 0x407FFF, 0x6F7FFF))
		start := win - int64(total) + 1
		if tail == 1 {
			ops = append(ops, sim.Op{K: "i", B: []byte{0x4C, byte(start), byte(start >> 8)}})
		}
		sc.Ops = ops
		sc.Cfg["pc"] = start
		sc.Cfg["nohole"] = 1
		sc.Cfg["budget"] = int64(r.Range(10, 120))
		sc.Cfg["target"] = 0xFFFFFF
		sc.Cfg["e"] = 0
		sc.Cfg["sp"] = 0x01FF
	}
	if kind == 0 && sc.Cfg["sink"] == 0 && r.Chance(1, 6) {
		// the routine is run, re-uploaded with other constants (same opcodes, same lengths) and
		// run again on the same System: the second trace describes what is in memory now
		sc.Cfg["reupload"] = 1
	} else if kind == 0 && r.Chance(1, 4) {
		// the caller has program-counter hooks installed (on instruction starts and/or on the
		// target); they have side effects, so running them more or less often shows
		pcv := sc.Cfg["pc"]
		n := r.Range(1, 3)
		for i := 0; i < n; i++ {
			k := r.Intn(len(sc.Ops) + 1)
			off := 0
			for _, op := range sc.Ops[:k] {
				off += len(op.B)
			}
			a := pcv&0xFF0000 | (pcv+int64(off))&0xFFFF
			if r.Chance(1, 3) {
				a = sc.Cfg["target"]
			}
			sc.Cfg[fmt.Sprintf("hook%d", i)] = a
		}
		sc.Cfg["nhooks"] = int64(n)
		if sc.Cfg["sink"] == 0 && r.Chance(1, 4) {
			sc.Cfg["hookdetach"] = 1 // the first hook also detaches the Logger (tracing switched off from inside the run)
		}
	}
	if kind == 0 && r.Chance(1, 5) {
		// the host serves WDM calls, and its handler hands over to a second one on its first
		// call (a two-phase protocol): which handler is installed after the run must not depend
		// on tracing
		sc.Cfg["wdmhost"] = 1
	}
	if kind == 2 && r.Chance(1, 6) {
		sc.Cfg["forkbus"] = 1
	} else if kind != 0 && r.Chance(1, 10) {
		sc.Cfg["faultend"] = int64(r.Range(1, 2))
		// straight-line code, so that the cut-off instruction is reached
		simple := []byte{0xEA, 0xE8, 0xC8, 0x1A, 0x3A, 0x18, 0x38, 0xAA, 0xA8}
		var ops []sim.Op
		for i := 0; i < r.Range(1, 8); i++ {
			ops = append(ops, sim.Op{K: "i", B: []byte{simple[r.Intn(len(simple))]}})
		}
		ops = append(ops, sim.Op{K: "i", B: []byte{byte(sim.PickInt(r, 0xAD, 0x8D, 0xAF, 0x8F, 0xBD)), byte(r.Intn(256)), byte(r.Intn(0x70)), byte(r.Intn(0x70))}})
		sc.Ops = ops
	}
	if kind == 1 && r.Chance(1, 6) {
		pcv := sc.Cfg["pc"]
		sc.Cfg["split"] = (pcv&0xFF0000 | (pcv+int64(r.Range(4, 48)))&0xFFFF) &^ 0xF
		if sc.Cfg["split"] == 0 {
			sc.Cfg["split"] = 0x10
		}
	} else if kind == 1 && r.Chance(1, 5) {
		// cpualt executing out of open bus: a 16-byte block is left unattached (reads return
		// the bus latch Bus.M) and the program jumps to its last byte
		hole := int64(r.Intn(0x70))<<16 | int64(sim.PickInt(r, 0xA9, 0xAD, 0xA2, 0x69, 0xC9, 0x8D, 0x29, r.Intn(256)))<<8 | int64(r.Intn(16))<<4
		sc.Cfg["hole"] = hole
		tgt := hole + 15 - int64(r.Intn(3))
		jmp := sim.Op{K: "i", B: []byte{0x4C, byte(tgt), byte(tgt >> 8)}}
		at := r.Intn(3)
		if at > len(sc.Ops) {
			at = len(sc.Ops)
		}
		sc.Ops = append(sc.Ops[:at], append([]sim.Op{jmp}, sc.Ops[at:]...)...)
		sc.Cfg["pc"] = hole&0xFF0000 | 0x0200
		sc.Cfg["sink"] = 0
	}
	return sc
}

type preStep struct {
	R   Regs
	Ins []byte
}

func (c14) Exec(sc *sim.Scenario, env *sim.Env) *sim.Violation {
	sim.Activate(env)
	defer sim.Deactivate()
	env.SetWatchdog(400000000)
	if k := sc.C("kind"); k == 1 || k == 2 {
		return c14alt(sc, env)
	}
	return c14sys(sc, env)
}

func sinkFor(env *sim.Env, sc *sim.Scenario) (io.Writer, *sim.SimSink, *sim.RCSink) {
	plan := int(sc.C("sink"))
	if plan != sim.SinkPanic {
		plan &= 3
	}
	ss := sim.NewSink(env, plan, int(sc.C("sinkk")))
	if sc.C("rc") == 2 && ss.Plan == sim.SinkOK {
		sz := int(sc.C("bufsz"))
		if sz < 16 {
			sz = 16
		}
		bw := bufio.NewWriterSize(ss, sz)
		return &bufLogger{Writer: bw, ss: ss}, ss, nil
	}
	if sc.C("rc") != 0 {
		rc := &sim.RCSink{SimSink: ss}
		return rc, ss, rc
	}
	return ss, ss, nil
}

// bufLogger is a *bufio.Writer used as the Logger; flushed by the harness after the run.
type bufLogger struct {
	*bufio.Writer
	ss *sim.SimSink
}

func flushLogger(w io.Writer) {
	if b, ok := w.(*bufLogger); ok {
		_ = b.Flush()
	}
}

func c14sys(sc *sim.Scenario, env *sim.Env) *sim.Violation {
	st := env.Stats
	target := uint32(sc.C("target")) & 0xFFFFFF
	budget := uint64(sc.C("budget"))
	if budget > 20000 {
		budget = 20000
	}
	mkHole := func() *SimMem {
		if sc.C("nohole") != 0 {
			return nil // leave unattached what CreateEmulator leaves unattached
		}
		m := NewSimMem(env, 0, uint64(sc.C("fillseed"))^0x401e)
		m.NoLog = true
		return m
	}
	st.ProbeIf(sc.C("nohole") != 0, "code_at_end_of_attached_window")
	// world A: traced
	// which of the two pooled Systems is the traced one alternates: over a worker's runs both
	// get traced (a tracer that keeps something per process meets its second System)
	ia := int(sc.Seed>>3) & 1
	smA, err := NewSysMachine(env, ia, mkHole())
	if err != nil {
		return &sim.Violation{Oracle: "HARNESS_PANIC", Msg: err.Error()}
	}
	loadSystem(smA, sc)
	c14hooks(smA, sc, st)
	w, ss, rc := sinkFor(env, sc)
	panicsBefore := sim.LibraryGoroutinePanics()
	smA.S.Logger = w
	var retA bool
	reup := sc.C("reupload") != 0 && sc.C("nhooks") == 0
	mark1 := 0
	pA, pvA := sim.RecoverLib(func() {
		retA = smA.S.RunUntil(target, budget)
		if reup {
			flushLogger(w)
			mark1 = len(ss.All())
			c14reupload(smA, sc)
			retA = smA.S.RunUntil(target, budget)
		}
	})
	flushLogger(w)
	st.ProbeIf(reup, "routine_reuploaded_and_run_again")
	st.ProbeIf(sc.C("rc") == 2, "logger_is_bufio_writer")
	if ss.Plan == sim.SinkPanic {
		// the caller's Logger panicked: whatever RunUntil makes of it, the panic belongs on the
		// goroutine that called RunUntil (where the caller can recover it), not on one the
		// library started (where it terminates the process, and every other instance with it)
		if n := sim.LibraryGoroutinePanics(); n > panicsBefore {
			return &sim.Violation{Oracle: "caller_panic_on_library_goroutine", Step: -1, Msg: fmt.Sprintf("the Logger's panic (write %d) was raised on a goroutine the library started itself: no caller can recover it, the process dies", ss.K)}
		}
		st.ProbeIf(ss.Panicked, "logger_panicked")
		return nil
	}
	regsA := cpuA{&smA.S.CPU}.Regs()
	// world B: untraced
	smB, err := NewSysMachine(env, 1-ia, mkHole())
	if err != nil {
		return &sim.Violation{Oracle: "HARNESS_PANIC", Msg: err.Error()}
	}
	loadSystem(smB, sc)
	c14hooks(smB, sc, nil)
	var retB bool
	pB, pvB := sim.RecoverLib(func() {
		retB = smB.S.RunUntil(target, budget)
		if reup {
			c14reupload(smB, sc)
			retB = smB.S.RunUntil(target, budget)
		}
	})
	regsB := cpuA{&smB.S.CPU}.Regs()
	if sc.C("wdmhost") != 0 && !pA && !pB {
		// the next host call, whenever it comes, meets the handler the host left installed
		for _, sm := range []*SysMachine{smA, smB} {
			if h := sm.S.CPU.OnWDM; h != nil {
				h(0x5A)
			}
		}
		st.Probe("wdm_handler_replaces_itself")
	}
	st.SimCycles += regsA.AllCycles + regsB.AllCycles
	env.ObsBool(pA)
	env.ObsBool(retA)
	env.ObsU64(regsA.Hash())
	env.ObsBytes(ss.All())

	if pA != pB {
		return &sim.Violation{Oracle: "tracing_changes_outcome", Step: -1,
			Msg: fmt.Sprintf("traced run panicked=%v (%s), untraced run panicked=%v (%s)", pA, sim.PanicString(pvA), pB, sim.PanicString(pvB))}
	}
	if pA {
		// a Step that panics identically with and without tracing is C08's business
		// ("never crashes"), whatever the panic value looks like
		st.Abort("step_panic_both_worlds")
		return nil
	}
	if d := regsA.Diff(regsB, true); d != "" || retA != retB {
		return &sim.Violation{Oracle: "tracing_perturbs_registers", Step: -1, Msg: fmt.Sprintf("traced vs untraced final state: %s (RunUntil returned %v vs %v)", d, retA, retB)}
	}
	if !bytes.Equal(smA.S.WRAM[:], smB.S.WRAM[:]) || !bytes.Equal(smA.S.SRAM[:], smB.S.SRAM[:]) || !bytes.Equal(smA.S.ROM[:0x200000], smB.S.ROM[:0x200000]) {
		return &sim.Violation{Oracle: "tracing_perturbs_memory", Step: -1, Msg: "traced and untraced runs leave different memory (WRAM/SRAM/ROM arrays)"}
	}
	for a := uint32(0x2000); a < 0x8000; a += 1 {
		if peekSys(smA, a) != peekSys(smB, a) {
			return &sim.Violation{Oracle: "tracing_perturbs_memory", Step: -1, Msg: fmt.Sprintf("traced and untraced runs differ in the I/O area at %06x", a)}
		}
	}
	if hashStore(0, smA.Hole) != hashStore(0, smB.Hole) {
		return &sim.Violation{Oracle: "tracing_perturbs_memory", Step: -1, Msg: "traced and untraced runs differ in simulated (otherwise unattached) memory"}
	}
	if rc != nil {
		st.Probe("logger_with_reserve_commit")
		if rc.Commits != 1 {
			// not part of the property; recorded as an observation only
			st.Probe("commit_count_not_1")
		}
	}

	// pass C: reference pass on machine 1, recording what each instruction looks like
	// from outside just before it executes (the property's own definition of RunUntil)
	smC, err := NewSysMachine(env, 1-ia, mkHole())
	if err != nil {
		return &sim.Violation{Oracle: "HARNESS_PANIC", Msg: err.Error()}
	}
	loadSystem(smC, sc)
	c14hooks(smC, sc, nil)
	cpu := cpuA{&smC.S.CPU}
	var recs []preStep
	endedOnTarget := false
	refPass := func() {
		recs, endedOnTarget = nil, false
		for cycles := uint64(0); cycles < budget; {
			r := cpu.Regs()
			ins := make([]byte, 4)
			for k := 0; k < 4; k++ {
				ins[k] = peekSys(smC, uint32(r.RK)<<16|uint32(r.PC+uint16(k)))
			}
			recs = append(recs, preStep{r, ins})
			if r.PCL() == target {
				endedOnTarget = true
				break
			}
			n, _ := cpu.Step()
			cycles += uint64(n)
		}
	}
	var recs1 []preStep
	onTarget1 := false
	pC, _ := sim.RecoverLib(func() {
		refPass()
		if reup {
			recs1, onTarget1 = recs, endedOnTarget
			c14reupload(smC, sc)
			refPass()
		}
	})
	if pC {
		st.Abort("reference_pass_panic")
		return nil
	}
	if d := regsA.Diff(cpu.Regs(), false); d != "" {
		// RunUntil itself deviates from its definition: C12's business, not tracing's
		st.Abort("rununtil_differs_from_reference")
		return nil
	}
	st.ProbeIf(endedOnTarget, "line_at_target")
	if endedOnTarget {
		st.MarkNontrivial()
	}
	traceBytes := ss.All()
	if reup {
		// the first run's lines against the first run's instructions; the rest below
		l1 := splitLines(traceBytes[:mark1])
		if !(len(l1) == len(recs1) || (onTarget1 && len(l1) == len(recs1)-1)) {
			return &sim.Violation{Oracle: "trace_line_count", Step: -1, Msg: fmt.Sprintf("first run: %d trace lines for %d instructions about to execute", len(l1), len(recs1))}
		}
		if v := checkLines(l1, recs1, st); v != nil {
			v.Msg = "first run: " + v.Msg
			return v
		}
		traceBytes = traceBytes[mark1:]
	}
	lines := splitLines(traceBytes)
	if ss.Plan == sim.SinkOK {
		// one line per instruction that executes; whether the instruction AT the target (which is
		// never executed) also gets a line is not fixed by the property
		okCount := len(lines) == len(recs) || (endedOnTarget && len(lines) == len(recs)-1)
		if sc.C("hookdetach") != 0 && smA.S.Logger == nil {
			// tracing was switched off part-way: the lines up to then are checked, their number is not
			okCount = len(lines) <= len(recs)
			if len(lines) < len(recs) {
				recs = recs[:len(lines)]
			}
		}
		if !okCount {
			return &sim.Violation{Oracle: "trace_line_count", Step: -1, Msg: fmt.Sprintf("%d trace lines for %d instructions about to execute (incl. the one at the target)", len(lines), len(recs))}
		}
	} else {
		st.ProbeIf(ss.Failed > 0, "sink_fault_fired")
		st.ProbeIf(ss.Plan == sim.SinkDead, "sink_dead")
		// with a faulty sink only the lines accepted in full before the first fault are checked
		n := 0
		for n < len(ss.Writes) && n < ss.K && ss.Plan != sim.SinkDead {
			n++
		}
		if ss.Plan == sim.SinkDead {
			n = 0
		}
		if len(lines) > n {
			lines = lines[:n]
		}
	}
	return checkLines(lines, recs, st)
}

// c14reupload: the host uploads the routine again with other constants (the last operand byte
// of every instruction that has one and is no branch, jump or block move gets bit 0 flipped;
// opcodes and lengths stay) and puts the CPU back to the start state.
func c14reupload(sm *SysMachine, sc *sim.Scenario) {
	addr := uint32(sc.C("pc")) & 0xFFFFFF
	for _, op := range sc.Ops {
		b := op.B
		if len(b) >= 2 && !ctrlOpcodes[b[0]] && b[0] != 0x44 && b[0] != 0x54 && b[0]&0x1F != 0x10 {
			at := addr&0xFF0000 | (addr+uint32(len(b))-1)&0xFFFF
			v := b[len(b)-1] ^ 0x01
			sim.RecoverLib(func() { sm.S.Bus.EaWrite(at, v) })
		}
		addr = addr&0xFF0000 | (addr+uint32(len(b)))&0xFFFF
	}
	cpuA{&sm.S.CPU}.SetRegs(startRegs(sc))
}

// c14hooks installs the scenario's program-counter hooks (or none) on a pooled System. Each
// hook bumps a cell at the top of WRAM page $1F: a traced run that fires a hook more or less
// often than an untraced one leaves different memory.
func c14hooks(sm *SysMachine, sc *sim.Scenario, st *sim.Stats) {
	installHooks(&sm.S.CPU, nil)
	sm.S.CPU.OnWDM = nil
	if sc.C("wdmhost") != 0 {
		s := sm.S
		second := func(b byte) { s.WRAM[0x1FE1] += b | 1 }
		s.CPU.OnWDM = func(b byte) {
			s.WRAM[0x1FE0]++
			s.CPU.OnWDM = second
		}
	}
	n := int(sc.C("nhooks"))
	if n <= 0 {
		return
	}
	if n > 3 {
		n = 3
	}
	hooks := map[uint32]func(){}
	s := sm.S
	for i := 0; i < n; i++ {
		cell := 0x1FF0 + i
		detach := i == 0 && sc.C("hookdetach") != 0
		hooks[uint32(sc.C(fmt.Sprintf("hook%d", i)))&0xFFFFFF] = func() {
			s.WRAM[cell]++
			if detach && s.Logger != nil {
				s.Logger = nil // the host switches tracing off from inside its hook
				if st != nil {
					st.Probe("logger_detached_by_hook")
				}
			}
			if st != nil {
				st.Probe("pc_hook_fired_in_traced_run")
			}
		}
	}
	installHooks(&s.CPU, hooks)
}

func splitLines(b []byte) []string {
	s := string(b)
	if s == "" {
		return nil
	}
	ls := strings.Split(s, "\n")
	if ls[len(ls)-1] == "" {
		ls = ls[:len(ls)-1]
	}
	return ls
}

func checkLines(lines []string, recs []preStep, st *sim.Stats) *sim.Violation {
	for i, ln := range lines {
		if i >= len(recs) {
			break
		}
		if recs[i].Ins == nil {
			st.Probe("executing_from_open_bus")
			continue
		}
		t, err := parseTraceLine(ln)
		if err != nil {
			return &sim.Violation{Oracle: "trace_unparsable", Step: i, Msg: err.Error()}
		}
		if o, msg := checkTraceLine(t, recs[i].R, recs[i].Ins); o != "" {
			return &sim.Violation{Oracle: o, Step: i, Msg: fmt.Sprintf("trace line %d %q: %s", i, strings.TrimSpace(ln), msg)}
		}
		op := recs[i].Ins[0]
		md := decodeTable[op].Mode
		if md == mRel8 || md == mRel16 {
			back := false
			if md == mRel8 {
				back = recs[i].Ins[1] >= 0x80
			} else {
				back = recs[i].Ins[2] >= 0x80
			}
			if back {
				st.Probe("branch_backward")
				st.MarkNontrivial()
			} else {
				st.Probe("branch_forward")
			}
		}
		st.Probe(fmt.Sprintf("mode_%02d_M%dX%d", md, recs[i].R.M, recs[i].R.X))
	}
	return nil
}

func c14alt(sc *sim.Scenario, env *sim.Env) *sim.Violation {
	st := env.Stats
	steps := int(sc.C("budget")) / 5
	if steps > 600 {
		steps = 600
	}
	if steps < 1 {
		steps = 1
	}
	mkMem := func() *SimMem {
		m := NewSimMem(env, 0, uint64(sc.C("fillseed"))^0xa17)
		m.NoLog = true
		loadSimMem(m, sc)
		if k := uint32(sc.C("faultend")); k != 0 {
			// the memory ends k bytes before the end of the program's last instruction (a ROM
			// slice cut short): fetching or rendering that instruction faults, in the traced and
			// the untraced world alike (so the run is discarded); what matters is the state the
			// tracer is left in for the runs that follow in the same process
			end := uint32(sc.C("pc")) & 0xFFFFFF
			total := uint32(0)
			for _, op := range sc.Ops {
				end = end&0xFF0000 | (end+uint32(len(op.B)))&0xFFFF
				total += uint32(len(op.B))
			}
			if uint32(sc.C("pc"))&0xFFFF+total+64 > 0x10000 {
				// the program ends at the end of its bank: operand bytes wrap to the bank's start,
				// "behind the program" is not one stretch of addresses. Not this dimension's case
				return m
			}
			lo := end - k
			m.Fault = func(a uint32) bool {
				if a >= lo && a < lo+64 {
					st.Fault("device_fault")
					return true
				}
				return false
			}
		}
		return m
	}
	ss := sim.NewSink(env, int(sc.C("sink"))&3, int(sc.C("sinkk"))*4)
	var strLines []string
	var kept, keptCopy [][]byte
	var acc []byte
	accBroken := ""
	run := func(traced bool) (Regs, *SimMem, []preStep, [][]byte, bool, string) {
		mem := mkMem()
		var mem2 *SimMem
		var holeLo, holeHi uint32
		if h := uint32(sc.C("hole")); h != 0 {
			holeLo, holeHi = h&0xFFFFF0, h&0xFFFFF0|0xF
		}
		var mc *Machine
		if sc.C("kind") == 2 {
			mc = NewBusMachine(env, 0, mem)
			holeLo, holeHi = 0, 0
		} else {
			mc = NewAltMachine(env, 0, mem, holeLo, holeHi)
			if sp := uint32(sc.C("split")); sp != 0 && holeHi == 0 {
				// a second device, behind closures of its own, serves 4 KiB from a 16-byte
				// boundary inside the program: instructions straddle the edge between them
				second := NewSimMem(env, 1, uint64(sc.C("fillseed"))^0x5ec0)
				second.NoLog = true
				loadSimMem(second, sc)
				SplitAlt(mc, second, sp&0xFFFFF0)
				mem2 = second
				// behind the split the first device holds something else: whatever is read there
				// through the first device's closures (instead of the second's) is wrong
				for a := sp & 0xFFFFF0; a < sp&0xFFFFF0+0x1000 && a <= 0xFFFFFF; a++ {
					mem.Poke(a, mem.Peek(a)^0xFF)
				}
			}
		}
		mc.CPU.SetRegs(startRegs(sc))
		if ca, ok := mc.CPU.(cpuA); ok && sc.C("forkbus") != 0 {
			// the parent renders one line (and is then put aside); the program runs on a copy made
			// with InitFrom onto ANOTHER bus, whose memory holds the routine with other constants:
			// the copy's trace describes what is on the copy's bus
			if traced {
				_ = ca.TraceNoBuffer()
			}
			mem = NewSimMem(env, 2, uint64(sc.C("fillseed"))^0xf04c)
			mem.NoLog = true
			loadSimMem(mem, sc)
			addr := uint32(sc.C("pc")) & 0xFFFFFF
			for _, op := range sc.Ops {
				if b := op.B; len(b) >= 2 && !ctrlOpcodes[b[0]] && b[0] != 0x44 && b[0] != 0x54 && b[0]&0x1F != 0x10 {
					mem.Poke(addr&0xFF0000|(addr+uint32(len(b))-1)&0xFFFF, b[len(b)-1]^0x01)
				}
				addr = addr&0xFF0000 | (addr+uint32(len(op.B)))&0xFFFF
			}
			mc2 := NewBusMachine(env, 1, mem)
			cp := &cpu65c816.CPU{}
			cp.InitFrom(ca.c, mc2.busA)
			mc = &Machine{CPU: cpuA{cp}, Mem: mem, busA: mc2.busA}
			st.Probe("traced_cpu_is_a_copy_on_another_bus")
		}
		var recs []preStep
		var lines [][]byte
		strLines = nil
		p, pv := sim.RecoverLib(func() {
			for i := 0; i < steps; i++ {
				r := mc.CPU.Regs()
				ins := make([]byte, 4)
				for k := 0; k < 4; k++ {
					a := uint32(r.RK)<<16 | uint32(r.PC+uint16(k))
					ins[k] = mem.Peek(a)
					if sp := uint32(sc.C("split")) & 0xFFFFF0; mem2 != nil && a >= sp && a <= sp+0xFFF {
						ins[k] = mem2.Peek(a)
					}
					if holeHi > holeLo && a >= holeLo && a <= holeHi {
						ins = nil // the bytes there are whatever the bus latch holds: not recorded
						break
					}
				}
				recs = append(recs, preStep{r, ins})
				if ca, ok := mc.CPU.(cpuA); ok && traced && i%3 == 2 {
					// a caller that accumulates the whole trace in one growing buffer
					prev := append([]byte{}, acc...)
					acc = ca.TraceAppend(acc)
					if len(acc) < len(prev) || string(acc[:len(prev)]) != string(prev) {
						accBroken = fmt.Sprintf("appending the line of step %d to a %d-byte trace changed what was already in it", i, len(prev))
					}
					got := append([]byte{}, acc[min(len(prev), len(acc)):]...)
					_, _ = ss.Write(got)
					lines = append(lines, got)
					if cap(acc) > 4096 {
						acc = append([]byte{}, acc[len(acc)-min(len(acc), 37):]...) // keep it small, with little spare capacity
					}
					st.Probe("trace_accumulated_in_one_buffer")
				} else if ca, ok := mc.CPU.(cpuA); ok && traced && i%2 == 1 {
					// a caller that offers no buffer and keeps what it gets back
					got := ca.TraceNoBuffer()
					kept = append(kept, got)
					keptCopy = append(keptCopy, append([]byte{}, got...))
					_, _ = ss.Write(got)
					lines = append(lines, append([]byte{}, got...))
				} else if traced {
					before := len(ss.Cur)
					mc.CPU.Trace(ss)
					lines = append(lines, append([]byte{}, ss.Cur[before:]...))
					if mc.altB != nil && ins != nil {
						// cpualt's other rendering of the same instruction (returns a string)
						strLines = append(strLines, mc.altB.Disassemble(r.PC))
					} else {
						strLines = append(strLines, "")
					}
				}
				mc.CPU.Step()
			}
		})
		if mem2 != nil {
			// fold the second device's writes into the first one's store for the comparison
			for a, v := range mem2.Store {
				if v != mem2.Fill(a) {
					mem.Store[a|0x80000000] = v
				}
			}
		}
		return mc.CPU.Regs(), mem, recs, lines, p, sim.PanicString(pv)
	}
	regsA, memA, _, lines, pA, msgA := run(true)
	strA := strLines
	regsB, memB, recs, _, pB, msgB := run(false)
	st.SimCycles += regsA.AllCycles + regsB.AllCycles
	env.ObsU64(regsA.Hash())
	env.ObsBytes(ss.All())
	if pA != pB {
		return &sim.Violation{Oracle: "tracing_changes_outcome", Step: -1, Msg: fmt.Sprintf("bare CPU: traced run panicked=%v (%s), untraced panicked=%v (%s)", pA, msgA, pB, msgB)}
	}
	if pA {
		st.Abort("step_panic_both_worlds")
		return nil
	}
	if d := regsA.Diff(regsB, true); d != "" {
		return &sim.Violation{Oracle: "tracing_perturbs_registers", Step: -1, Msg: "cpualt traced vs untraced final state: " + d}
	}
	if accBroken != "" {
		return &sim.Violation{Oracle: "trace_line_overwritten", Step: -1, Msg: accBroken}
	}
	for i := range kept {
		if string(kept[i]) != string(keptCopy[i]) {
			return &sim.Violation{Oracle: "trace_line_overwritten", Step: i, Msg: fmt.Sprintf("a trace line returned to the caller (%q) was later overwritten by the library (now %q): it no longer describes its instruction", strings.TrimSpace(string(keptCopy[i])), strings.TrimSpace(string(kept[i])))}
		}
	}
	st.ProbeIf(len(kept) > 0, "trace_lines_kept_by_caller")
	if hashStore(0, memA) != hashStore(0, memB) {
		return &sim.Violation{Oracle: "tracing_perturbs_memory", Step: -1, Msg: "cpualt traced and untraced runs leave different memory"}
	}
	if ss.Plan != sim.SinkOK {
		st.ProbeIf(ss.Failed > 0, "sink_fault_fired")
		return nil // partial lines of a failing sink are not examined for cpualt (several writes per line)
	}
	var ls []string
	for _, l := range lines {
		ls = append(ls, string(l))
	}
	if len(ls) != len(recs) {
		return &sim.Violation{Oracle: "trace_line_count", Step: -1, Msg: fmt.Sprintf("cpualt: %d trace lines for %d steps", len(ls), len(recs))}
	}
	if v := checkLines(ls, recs, st); v != nil {
		return v
	}
	for i, sl := range strA {
		if sl == "" || i >= len(recs) || recs[i].Ins == nil {
			continue
		}
		t, err := parseTraceLineOpt(sl, false)
		if err != nil {
			return &sim.Violation{Oracle: "trace_unparsable", Step: i, Msg: "cpualt Disassemble(): " + err.Error()}
		}
		if o, msg := checkTraceLine(t, recs[i].R, recs[i].Ins); o != "" {
			return &sim.Violation{Oracle: o, Step: i, Msg: fmt.Sprintf("cpualt Disassemble() for step %d %q: %s", i, sl, msg)}
		}
		st.Probe("cpualt_string_disassembly_checked")
	}
	return nil
}
