package worlds

import (
	"fmt"
	"io"
	"reflect"
	"strings"

	"github.com/alttpo/snes/emulator"
	"github.com/alttpo/snes/emulator/bus"
	"github.com/alttpo/snes/emulator/cpu65c816"
	"github.com/alttpo/snes/emulator/cpualt"
	"github.com/alttpo/snes/emulator/memory"

	"verif/sim"
)

// Regs is the architectural + bookkeeping state both interpreters expose under the same
// field names.
type Regs struct {
	PC, SP, RA, RX, RY, RD uint16
	RAh, RAl, RXl, RYl     byte
	RDBR, RK               byte
	N, V, M, X, D, I, Z, C byte
	B, E                   byte
	AllCycles              uint64
	Cycles                 byte
	Stopped                bool
	PPC                    uint16
	PRK, WDM, Interrupt    byte
}

func (r Regs) PCL() uint32 { return uint32(r.RK)<<16 | uint32(r.PC) }

// Diff compares the fields C14/C12 name: registers incl. both width copies, flags, E,
// Stopped, PC/RK, AllCycles. Debug fields (PPC, PRK, Cycles, WDM) are compared only with all.
func (a Regs) Diff(b Regs, all bool) string {
	var d []string
	add := func(n string, x, y interface{}) {
		if x != y {
			d = append(d, fmt.Sprintf("%s %v != %v", n, x, y))
		}
	}
	add("PC", a.PC, b.PC)
	add("RK", a.RK, b.RK)
	add("SP", a.SP, b.SP)
	add("RA", a.RA, b.RA)
	add("RX", a.RX, b.RX)
	add("RY", a.RY, b.RY)
	add("RAh", a.RAh, b.RAh)
	add("RAl", a.RAl, b.RAl)
	add("RXl", a.RXl, b.RXl)
	add("RYl", a.RYl, b.RYl)
	add("RDBR", a.RDBR, b.RDBR)
	add("RD", a.RD, b.RD)
	add("N", a.N, b.N)
	add("V", a.V, b.V)
	add("M", a.M, b.M)
	add("X", a.X, b.X)
	add("D", a.D, b.D)
	add("I", a.I, b.I)
	add("Z", a.Z, b.Z)
	add("C", a.C, b.C)
	add("E", a.E, b.E)
	add("Stopped", a.Stopped, b.Stopped)
	add("AllCycles", a.AllCycles, b.AllCycles)
	if all {
		add("B", a.B, b.B)
		add("Cycles", a.Cycles, b.Cycles)
		add("PPC", a.PPC, b.PPC)
		add("PRK", a.PRK, b.PRK)
		add("WDM", a.WDM, b.WDM)
		add("Interrupt", a.Interrupt, b.Interrupt)
	}
	return strings.Join(d, ", ")
}

func (r Regs) Hash() uint64 {
	h := sim.HashU64(0, uint64(r.PC)|uint64(r.SP)<<16|uint64(r.RA)<<32|uint64(r.RX)<<48)
	h = sim.HashU64(h, uint64(r.RY)|uint64(r.RD)<<16|uint64(r.RAh)<<32|uint64(r.RAl)<<40|uint64(r.RXl)<<48|uint64(r.RYl)<<56)
	h = sim.HashU64(h, uint64(r.RDBR)|uint64(r.RK)<<8|uint64(r.N)<<16|uint64(r.V)<<17|uint64(r.M)<<18|uint64(r.X)<<19|uint64(r.D)<<20|uint64(r.I)<<21|uint64(r.Z)<<22|uint64(r.C)<<23|uint64(r.E)<<24)
	h = sim.HashU64(h, r.AllCycles)
	if r.Stopped {
		h = sim.HashU64(h, 1)
	}
	return h
}

// CPUI abstracts over the two interpreters.
type CPUI interface {
	Kind() string
	Step() (int, bool)
	Reset()
	Regs() Regs
	SetRegs(Regs)
	SetFlagsP(p byte)
	FlagsP() byte
	SetOnWDM(f func(byte))
	SetOnPC(m map[uint32]func())
	// Trace writes the trace line of the instruction at the current PC to w.
	Trace(w io.Writer)
	TriggerIRQ()
}

type cpuA struct{ c *cpu65c816.CPU }

func (a cpuA) Kind() string      { return "cpu65c816" }
func (a cpuA) TriggerIRQ()       { a.c.TriggerIRQ() }
func (a cpuA) Step() (int, bool) { return a.c.Step() }
func (a cpuA) Reset()            { a.c.Reset() }
func (a cpuA) SetFlagsP(p byte)  { a.c.SetFlags(p) }
func (a cpuA) FlagsP() byte      { return a.c.Flags() }
func (a cpuA) SetOnWDM(f func(byte)) {
	a.c.OnWDM = f
}

// installHooks installs the caller's hooks the way hosts do: into the table the CPU already
// has, if it has one (after clearing out what was put there before), else as a new table.
// m == nil removes the caller's hooks.
func installHooks(c *cpu65c816.CPU, m map[uint32]func()) {
	if c.OnPC == nil {
		c.OnPC = m
		return
	}
	if m != nil && reflect.ValueOf(c.OnPC).Pointer() == reflect.ValueOf(m).Pointer() {
		return
	}
	for k := range c.OnPC {
		delete(c.OnPC, k)
	}
	for k, v := range m {
		c.OnPC[k] = v
	}
}

func (a cpuA) SetOnPC(m map[uint32]func()) { installHooks(a.c, m) }
func (a cpuA) Trace(w io.Writer) {
	var oa [100]byte
	o := a.c.DisassembleCurrentPC(oa[:0])
	_, _ = w.Write(o)
}

// TraceNoBuffer asks for the trace line without offering a buffer and returns the slice the
// library hands back (the caller may keep it).
func (a cpuA) TraceNoBuffer() []byte { return a.c.DisassembleCurrentPC(nil) }

// TraceAppend appends the trace line to what the caller has accumulated so far.
func (a cpuA) TraceAppend(acc []byte) []byte { return a.c.DisassembleCurrentPC(acc) }
func (a cpuA) Regs() Regs {
	c := a.c
	return Regs{PC: c.PC, SP: c.SP, RA: c.RA, RX: c.RX, RY: c.RY, RD: c.RD, RAh: c.RAh, RAl: c.RAl, RXl: c.RXl, RYl: c.RYl,
		RDBR: c.RDBR, RK: c.RK, N: c.N, V: c.V, M: c.M, X: c.X, D: c.D, I: c.I, Z: c.Z, C: c.C, B: c.B, E: c.E,
		AllCycles: c.AllCycles, Cycles: c.Cycles, Stopped: c.Stopped, PPC: c.PPC, PRK: c.PRK, WDM: c.WDM, Interrupt: c.Interrupt}
}
func (a cpuA) SetRegs(r Regs) {
	c := a.c
	c.PC, c.SP, c.RA, c.RX, c.RY, c.RD = r.PC, r.SP, r.RA, r.RX, r.RY, r.RD
	c.RAh, c.RAl, c.RXl, c.RYl = r.RAh, r.RAl, r.RXl, r.RYl
	c.RDBR, c.RK = r.RDBR, r.RK
	c.N, c.V, c.M, c.X, c.D, c.I, c.Z, c.C, c.B, c.E = r.N, r.V, r.M, r.X, r.D, r.I, r.Z, r.C, r.B, r.E
	c.AllCycles, c.Cycles, c.Stopped, c.PPC, c.PRK, c.WDM, c.Interrupt = r.AllCycles, r.Cycles, r.Stopped, r.PPC, r.PRK, r.WDM, r.Interrupt
}

type cpuB struct{ c *cpualt.CPU }

func (a cpuB) Kind() string      { return "cpualt" }
func (a cpuB) TriggerIRQ()       { a.c.TriggerIRQ() }
func (a cpuB) Step() (int, bool) { return a.c.Step() }
func (a cpuB) Reset()            { a.c.Reset() }
func (a cpuB) SetFlagsP(p byte)  { a.c.SetFlags(p) }
func (a cpuB) FlagsP() byte      { return a.c.Flags() }
func (a cpuB) SetOnWDM(f func(byte)) {
	a.c.OnWDM = f
}
func (a cpuB) SetOnPC(m map[uint32]func()) { a.c.OnPC = m }
func (a cpuB) Trace(w io.Writer)           { a.c.DisassembleCurrentPC(w) }
func (a cpuB) Regs() Regs {
	c := a.c
	return Regs{PC: c.PC, SP: c.SP, RA: c.RA, RX: c.RX, RY: c.RY, RD: c.RD, RAh: c.RAh, RAl: c.RAl, RXl: c.RXl, RYl: c.RYl,
		RDBR: c.RDBR, RK: c.RK, N: c.N, V: c.V, M: c.M, X: c.X, D: c.D, I: c.I, Z: c.Z, C: c.C, B: c.B, E: c.E,
		AllCycles: c.AllCycles, Cycles: c.Cycles, Stopped: c.Stopped, PPC: c.PPC, PRK: c.PRK, WDM: c.WDM, Interrupt: c.Interrupt}
}
func (a cpuB) SetRegs(r Regs) {
	c := a.c
	c.PC, c.SP, c.RA, c.RX, c.RY, c.RD = r.PC, r.SP, r.RA, r.RX, r.RY, r.RD
	c.RAh, c.RAl, c.RXl, c.RYl = r.RAh, r.RAl, r.RXl, r.RYl
	c.RDBR, c.RK = r.RDBR, r.RK
	c.N, c.V, c.M, c.X, c.D, c.I, c.Z, c.C, c.B, c.E = r.N, r.V, r.M, r.X, r.D, r.I, r.Z, r.C, r.B, r.E
	c.AllCycles, c.Cycles, c.Stopped, c.PPC, c.PRK, c.WDM, c.Interrupt = r.AllCycles, r.Cycles, r.Stopped, r.PPC, r.PRK, r.WDM, r.Interrupt
}

// ---------------------------------------------------------------------------------------
// Machines: an interpreter plus simulated memory, pooled per worker process because the
// library's objects are large (bus.Bus 16 MiB, cpualt.CPU ~50 MiB, System ~33 MiB).
// A pooled machine is re-targeted at a fresh SimMem store for each run ("scrubbed").

type Machine struct {
	CPU CPUI
	Mem *SimMem // the single device behind the whole address space
	// second device for partially attached configurations (cpualt open bus experiments)
	busA    *bus.Bus
	busPool *pooledBus
	altB    *cpualt.CPU
	altPool *pooledAlt
}

// AttachOver puts another device over [lo,hi] of a bus machine for this run; the pooled bus
// gets its own device back there before its next use.
func (m *Machine) AttachOver(dev memory.Memory, name string, lo, hi uint32) error {
	if err := m.busA.Attach(dev, name, lo, hi); err != nil {
		return err
	}
	m.busPool.over = append(m.busPool.over, [2]uint32{lo, hi})
	return nil
}

// memProxy lets a pooled bus keep its attachment while the backing SimMem changes per run.
type memProxy struct{ m *SimMem }

func (p *memProxy) Read(a uint32) byte     { return p.m.Read(a) }
func (p *memProxy) Write(a uint32, v byte) { p.m.Write(a, v) }
func (p *memProxy) Shutdown()              {}
func (p *memProxy) Size() uint32           { return 0 }
func (p *memProxy) Clear()                 {}
func (p *memProxy) Dump(a uint32) []byte   { return nil }

type pooledBus struct {
	b     *bus.Bus
	cpu   *cpu65c816.CPU
	proxy *memProxy
	over  [][2]uint32 // ranges given to another device during the last run
}

var pooledBuses = map[int]*pooledBus{}

// NewBusMachine returns a cpu65c816 on a bus.Bus whose whole 24-bit space is served by mem.
func NewBusMachine(env *sim.Env, idx int, mem *SimMem) *Machine {
	idx += env.Task * 4
	if pooledBuses[idx] == nil {
		b, _ := bus.New()
		px := &memProxy{}
		if err := b.Attach(px, "sim", 0, 0xFFFFFF); err != nil {
			panic("harness: " + err.Error())
		}
		pooledBuses[idx] = &pooledBus{b: b, cpu: &cpu65c816.CPU{}, proxy: px}
	}
	pb := pooledBuses[idx]
	pb.proxy.m = mem
	for _, r := range pb.over {
		if err := pb.b.Attach(pb.proxy, "sim", r[0], r[1]); err != nil {
			panic("harness: " + err.Error())
		}
	}
	pb.over = nil
	pb.cpu.Init(pb.b)
	pb.b.EA, pb.b.Write = 0, false
	return &Machine{CPU: cpuA{pb.cpu}, Mem: mem, busA: pb.b, busPool: pb}
}

type pooledAlt struct {
	cpu      *cpualt.CPU
	proxy    *memProxy
	attached bool
	split    bool // a second device was attached by SplitAlt: re-attach everything next time
	lo, hi   uint32
	// holeLo/holeHi: range left as open bus in the current configuration
}

var pooledAlts = map[int]*pooledAlt{}

// NewAltMachine returns a cpualt.CPU whose bus closures are served by mem. If holeHi>holeLo,
// the 16-byte blocks of [holeLo,holeHi] are left as open bus (the library's default closures).
func NewAltMachine(env *sim.Env, idx int, mem *SimMem, holeLo, holeHi uint32) *Machine {
	idx += env.Task * 4
	if pooledAlts[idx] == nil {
		c := &cpualt.CPU{}
		c.Init()
		pooledAlts[idx] = &pooledAlt{cpu: c, proxy: &memProxy{}}
	}
	pa := pooledAlts[idx]
	pa.proxy.m = mem
	c := pa.cpu
	px := pa.proxy
	// registers are reset field by field: *c = CPU{} would drop the per-instance opcode table
	cpuB{c}.SetRegs(Regs{})
	c.StepInfo = cpualt.StepInfo{}
	c.OnWDM, c.OnPC = nil, nil
	c.Bus.M = 0
	if pa.attached && pa.lo == holeLo && pa.hi == holeHi && !pa.split {
		return &Machine{CPU: cpuB{c}, Mem: mem, altB: c, altPool: pa}
	}
	pa.split = false
	pa.attached, pa.lo, pa.hi = true, holeLo, holeHi
	rd := func(a uint32) uint8 { return px.Read(a) }
	wr := func(a uint32, v uint8) { px.Write(a, v) }
	if holeHi > holeLo {
		// fresh default closures over the hole, as Bus.Init installs them
		bp := &c.Bus
		open := func(addr uint32) uint8 { return bp.M }
		nop := func(addr uint32, val uint8) {}
		c.Bus.AttachReader(0, 0xFFFFFF, rd)
		c.Bus.AttachWriter(0, 0xFFFFFF, wr)
		c.Bus.AttachReader(holeLo, holeHi, open)
		c.Bus.AttachWriter(holeLo, holeHi, nop)
	} else {
		c.Bus.AttachReader(0, 0xFFFFFF, rd)
		c.Bus.AttachWriter(0, 0xFFFFFF, wr)
	}
	return &Machine{CPU: cpuB{c}, Mem: mem, altB: c, altPool: pa}
}

// ---------------------------------------------------------------------------------------
// emulator.System pool. Unattached ranges are covered by a SimMem (attached first, so that
// CreateEmulator's own Attach calls win wherever the System maps something).

type SysMachine struct {
	S    *emulator.System
	Hole *SimMem
	px   *memProxy
}

var pooledSystems = map[int]*SysMachine{}

func NewSysMachine(env *sim.Env, idx int, hole *SimMem) (*SysMachine, error) {
	idx += env.Task * 4
	if pooledSystems[idx] == nil {
		pooledSystems[idx] = &SysMachine{S: &emulator.System{}, px: &memProxy{}}
	}
	sm := pooledSystems[idx]
	sm.Hole = hole
	sm.px.m = hole
	s := sm.S
	// scrub
	for i := range s.WRAM {
		s.WRAM[i] = 0
	}
	for i := range s.SRAM {
		s.SRAM[i] = 0
	}
	// CreateEmulator maps only the first 64 half-banks (2 MiB) of the ROM array, as RAM
	rom := s.ROM[:0x200000]
	for i := range rom {
		rom[i] = 0
	}
	s.Logger = nil
	if hole == nil {
		// no cover: start from an empty bus so that unattached ranges really are unattached
		s.Bus = bus.Bus{}
	} else if err := s.Bus.Attach(sm.px, "hole", 0, 0xFFFFFF); err != nil {
		return nil, err
	}
	if err := s.CreateEmulator(); err != nil {
		return nil, err
	}
	return sm, nil
}

// isBusTablePanic recognises the one class of library panic that belongs to unclaimed
// properties (C08: effective addresses beyond 24 bits index past the bus tables, and the
// wrap defects of 24-bit reads hand a device an address outside its backing slice).
func isIndexPanic(msg string) bool {
	return strings.Contains(msg, "index out of range") || strings.Contains(msg, "slice bounds out of range")
}

// SplitAlt re-attaches the 4 KiB starting at lo (16-byte aligned) of a cpualt machine to a
// second device behind closures of its own, so that instructions can straddle the edge
// between two differently served segments. The machine must be re-created afterwards
// (NewAltMachine with a different hole configuration resets the attachment).
func SplitAlt(mc *Machine, second *SimMem, lo uint32) {
	c := mc.altB
	if mc.altPool != nil {
		mc.altPool.split = true
	}
	hi := lo + 0xFFF
	if hi > 0xFFFFFF {
		hi = 0xFFFFFF
	}
	c.Bus.AttachReader(lo, hi, func(a uint32) uint8 { return second.Read(a) })
	c.Bus.AttachWriter(lo, hi, func(a uint32, v uint8) { second.Write(a, v) })
}
