package worlds

import (
	"fmt"
	"regexp"
	"strconv"
	"strings"

	"github.com/alttpo/snes/asm"

	"verif/sim"
)

// C06 — Finalize resolves every label reference to the right target or reports an error.
// The simulator owns: the call history (constructed branch distances, forward / backward /
// repeated / missing references), the failure events inside it (duplicate Label, emits
// refused for capacity in the middle of a reference-carrying instruction, Finalize at
// arbitrary points, repeated, and retried after the missing Label arrives), and — through
// P-maporder — the order in which Finalize visits labels.
type c06 struct{}

func init() { sim.Register(c06{}) }

func (c06) ID() string     { return "C06" }
func (c06) Level() string  { return "exploration" }
func (c06) QuickRuns() int { return 160000 }
func (c06) Rule() string {
	return "each evaluation is one generated emitter history (1-70 ops, 0-10 labels, up to 14 label references of all nine reference methods, constructed distances -129,-128,-127,-1,0,+126,+127,+128 on both sides, Finalize at arbitrary points, duplicate labels, optional tight capacity, optional base) executed against asm.Emitter and the reference model, with the label-visiting order of every Finalize drawn from the task-local stream; distinct = distinct scenario hash; non-trivial = the history contains at least one failure event (failed Finalize, duplicate Label, refused emit) or a boundary distance"
}
func (c06) Assumptions() []string {
	return []string{
		"program stays within one bank; SetBase at most once, before the first emission (the property's quantifier)",
		"after a failed Finalize the operand bytes of label references may hold any value (the property allows it); they are checked again after the next successful Finalize",
		"an error 'names' a failing reference if its text contains the label name, or a hex/decimal token equal to the instruction, operand, instruction-end or label address of an out-of-range reference",
		"instruction encodings are not checked here (C03 not claimed): bytes are compared with the image the emitter itself produced at emit time",
	}
}
func (c06) Components() map[string][]string {
	return map[string][]string{"real": {"asm.Emitter (instrumented copy: yield points, seeded map-range order)"}, "stub": {"none"}}
}

func padOps(r *sim.Rand, n int, flags uint8) []sim.Op {
	var ops []sim.Op
	for n > 0 {
		if r.Chance(1, 4) {
			k := r.Range(1, n)
			if k > 40 {
				k = 40
			}
			ops = append(ops, sim.Op{K: "data", B: r.Bytes(k)})
			n -= k
			continue
		}
		op := genIns(r, flags, false, false)
		s := opSize(op)
		if s > n || s == 0 {
			ops = append(ops, sim.Op{K: "data", B: r.Bytes(1)})
			n--
			continue
		}
		ops = append(ops, op)
		n -= s
	}
	return ops
}

func (c06) Gen(r *sim.Rand, tier string, run uint64) *sim.Scenario {
	sc := &sim.Scenario{Cfg: map[string]int64{}}
	var ops []sim.Op
	flags := uint8(0)
	next := int64(0)
	newLabel := func() int64 { l := next; next++; return l }
	ref := func(l int64) sim.Op {
		am := asmRefs[r.Intn(len(asmRefs))]
		return sim.Op{K: "ref", S: am.Name, N: []int64{l}}
	}
	s8ref := func(l int64) sim.Op {
		for {
			am := asmRefs[r.Intn(len(asmRefs))]
			if am.RefS8 {
				return sim.Op{K: "ref", S: am.Name, N: []int64{l}}
			}
		}
	}
	boundary := []int{-129, -128, -127, -2, -1, 0, 1, 126, 127, 128}
	nPat := r.Range(0, 6)
	refs := 0
	for p := 0; p < nPat && refs < 14 && next < 10; p++ {
		switch r.Intn(9) {
		case 0, 1: // backward reference at a constructed distance
			d := boundary[r.Intn(3)+0]
			if r.Chance(1, 3) {
				d = -r.Range(2, 60)
			}
			l := newLabel()
			ops = append(ops, sim.Op{K: "label", N: []int64{l}})
			ops = append(ops, padOps(r, -d-2, flags)...)
			ops = append(ops, s8ref(l))
			refs++
		case 2, 3: // forward reference at a constructed distance
			d := boundary[7+r.Intn(3)]
			if r.Chance(1, 3) {
				d = r.Range(0, 60)
			}
			l := newLabel()
			ops = append(ops, s8ref(l))
			ops = append(ops, padOps(r, d, flags)...)
			ops = append(ops, sim.Op{K: "label", N: []int64{l}})
			refs++
		case 4: // several references to one label, on both sides
			l := newLabel()
			k := r.Range(1, 3)
			for i := 0; i < k; i++ {
				ops = append(ops, ref(l))
				ops = append(ops, padOps(r, r.Intn(30), flags)...)
				refs++
			}
			ops = append(ops, sim.Op{K: "label", N: []int64{l}})
			k = r.Range(0, 3)
			for i := 0; i < k; i++ {
				ops = append(ops, padOps(r, r.Intn(30), flags)...)
				ops = append(ops, ref(l))
				refs++
			}
		case 5: // reference to a label that is never (or only later) defined
			l := newLabel()
			ops = append(ops, ref(l))
			refs++
			if r.Chance(1, 2) {
				ops = append(ops, sim.Op{K: "finalize"})
				ops = append(ops, padOps(r, r.Intn(20), flags)...)
				ops = append(ops, sim.Op{K: "label", N: []int64{l}})
			}
		case 6: // distance 0 / -2: branch to itself or to the next instruction
			l := newLabel()
			if r.Chance(1, 2) {
				ops = append(ops, sim.Op{K: "label", N: []int64{l}}, s8ref(l))
			} else {
				ops = append(ops, s8ref(l), sim.Op{K: "label", N: []int64{l}})
			}
			refs++
		case 7: // duplicate label
			if next > 0 {
				ops = append(ops, sim.Op{K: "label", N: []int64{int64(r.Intn(int(next)))}})
			}
		case 8: // filler, flag ops, comment
			ops = append(ops, padOps(r, r.Intn(40), flags)...)
			if r.Chance(1, 2) {
				f := genFlagOp(r)
				flags = applyFlagOp(flags, f)
				ops = append(ops, f)
			}
			if r.Chance(1, 3) {
				ops = append(ops, genComment(r))
			}
		}
		if r.Chance(1, 6) {
			ops = append(ops, sim.Op{K: "finalize"})
		}
	}
	if r.Chance(1, 12) && next < 10 {
		// arbitrarily many references to one label, on both sides of it
		l := newLabel()
		k1, k2 := r.Range(8, 30), r.Range(8, 30)
		jmp := func() sim.Op { return sim.Op{K: "ref", S: "JMP_abs", N: []int64{l}} }
		for i := 0; i < k1; i++ {
			if k1-i <= 20 && r.Chance(1, 2) {
				ops = append(ops, s8ref(l)) // at most 20 refs x 3 bytes away: in range
			} else {
				ops = append(ops, jmp())
			}
		}
		ops = append(ops, sim.Op{K: "label", N: []int64{l}})
		for i := 0; i < k2; i++ {
			if i < 20 && r.Chance(1, 2) {
				ops = append(ops, s8ref(l))
			} else {
				ops = append(ops, jmp())
			}
		}
		refs = 14 // no more random references: keep the history bounded
	}
	// references to earlier labels from far away (likely out of range), jumps anywhere
	for i := 0; i < r.Intn(3) && next > 0 && refs < 14; i++ {
		ops = append(ops, ref(int64(r.Intn(int(next)))))
		refs++
	}
	ops = append(ops, sim.Op{K: "finalize"})
	if r.Chance(1, 3) {
		ops = append(ops, sim.Op{K: "finalize"})
	}
	if r.Chance(1, 8) {
		// emission continues after Finalize; new references to existing labels
		ops = append(ops, padOps(r, r.Intn(20), flags)...)
		if next > 0 {
			ops = append(ops, ref(int64(r.Intn(int(next)))))
		}
		ops = append(ops, sim.Op{K: "finalize"})
	}
	far := r.Chance(1, 40)
	if far {
		// a branch from one end of a (nearly) full bank to the other: the true distance is
		// beyond +-65000 and must be reported, however the 16-bit program counter wraps
		l := newLabel()
		pad := r.Range(65300, 65500)
		var big []sim.Op
		for pad > 0 {
			k := 16000
			if k > pad {
				k = pad
			}
			big = append(big, sim.Op{K: "data", B: r.Bytes(k)})
			pad -= k
		}
		if r.Chance(1, 2) {
			ops = append(append([]sim.Op{{K: "label", N: []int64{l}}}, big...), append([]sim.Op{s8ref(l)}, ops...)...)
		} else {
			ops = append(append([]sim.Op{s8ref(l)}, big...), append([]sim.Op{{K: "label", N: []int64{l}}}, ops...)...)
		}
		ops = append(ops, sim.Op{K: "finalize"})
	}
	total := 0
	for _, op := range ops {
		total += opSize(op)
	}
	if far {
		// keep the whole program inside one bank
		for total > 0xFFF0 && len(ops) > 0 {
			total -= opSize(ops[len(ops)-1])
			ops = ops[:len(ops)-1]
		}
		ops = append(ops, sim.Op{K: "finalize"})
		if r.Chance(1, 2) {
			ops = append([]sim.Op{{K: "setbase", N: []int64{int64(r.Intn(256)) << 16}}}, ops...)
		}
	} else if total > 0 && total < 0x8000 && r.Chance(1, 25) {
		// the program ends on the last byte of its bank and a label is defined right behind it
		// (at $bb+1:0000): jumps to it carry 0000, branches the plain distance
		l := newLabel()
		at := r.Intn(len(ops) + 1)
		jmp := sim.Op{K: "ref", S: "JMP_abs", N: []int64{l}}
		ops = append(ops[:at], append([]sim.Op{jmp}, ops[at:]...)...)
		total += opSize(jmp)
		ops = append(ops, sim.Op{K: "label", N: []int64{l}})
		// ... or on one of the last bytes of the bank ($FFFF, $FFFE): k one-byte instructions follow
		k := sim.PickInt(r, 0, 0, 1, 1, 2)
		for j := 0; j < k; j++ {
			ops = append(ops, sim.Op{K: "ins", S: "NOP"})
			total++
		}
		ops = append(ops, sim.Op{K: "finalize"})
		base := int64(r.Intn(0x7F))<<16 | int64(0x10000-total)
		ops = append([]sim.Op{{K: "setbase", N: []int64{base}}}, ops...)
		sc.Cfg["bankend"] = 1
	} else if set, base := genBase(r, total+8); set {
		ops = append([]sim.Op{{K: "setbase", N: []int64{int64(base)}}}, ops...)
		if r.Chance(1, 10) {
			// a label defined ahead of SetBase (it stays where it was defined, at $000000) and a
			// jump that refers to it
			l := newLabel()
			at := 1 + r.Intn(len(ops))
			jmp := sim.Op{K: "ref", S: "JMP_abs", N: []int64{l}}
			ops = append(ops[:at], append([]sim.Op{jmp}, ops[at:]...)...)
			total += opSize(jmp)
			ops = append([]sim.Op{{K: "label", N: []int64{l}}}, ops...)
			ops = append(ops, sim.Op{K: "finalize"})
		}
	}
	sc.Cfg["cap"] = int64(total + 16)
	if r.Chance(1, 5) && total > 0 {
		sc.Cfg["cap"] = int64(r.Intn(total + 1)) // tight: some emits are refused mid-history
	}
	if !far && sc.Cfg["cap"] >= int64(total+16) && r.Chance(1, 6) {
		// a block of the history goes through Clone/Append: still one sequence of emitter calls
		ops = withCloneSegment(r, ops, map[string]bool{"finalize": true, "setbase": true})
	} else if !far && sc.Cfg["cap"] < int64(total) && r.Chance(1, 2) {
		// tight target: a block through Clone whose Append may be refused; the caller recovers
		// and carries on with the original, which must know nothing of the refused block
		ops = withCloneSegment(r, ops, map[string]bool{"finalize": true, "setbase": true})
	}
	sc.Cfg["gentext"] = int64(r.Intn(2))
	if far {
		sc.Cfg["cap"] = int64(total + 16)
		sc.Cfg["gentext"] = 0
	}
	sc.Cfg["dual"] = 0
	if r.Chance(1, 6) {
		sc.Cfg["dual"] = 1
	}
	sc.Ops = ops
	return sc
}

var tokRe = regexp.MustCompile(`(?i)(?:0x|\$)?([0-9a-f]+)`)

// errNamesFailing: does the error text identify at least one reference that really fails?
func errNamesFailing(msg string, failing []asmRef, m *asmModel) bool {
	vals := map[uint64]bool{}
	for _, t := range tokRe.FindAllStringSubmatch(msg, -1) {
		if v, err := strconv.ParseUint(t[1], 16, 64); err == nil {
			vals[v] = true
		}
		if v, err := strconv.ParseUint(t[1], 10, 64); err == nil {
			vals[v] = true
		}
	}
	for _, r := range failing {
		if strings.Contains(msg, r.Label) {
			return true
		}
		la, def := m.Labels[r.Label]
		if !def {
			continue
		}
		width := uint32(1)
		if !r.S8 {
			width = 2
		}
		for _, c := range []uint32{r.InsAddr, r.Operand, r.Operand + width, la} {
			if vals[uint64(c)] || vals[uint64(c&0xFFFF)] {
				return true
			}
		}
	}
	return false
}

var addrTokRe = regexp.MustCompile(`(?i)(?:0x|\$)([0-9a-f]+)`)

// errNamesOnlySound: the error text carries the location (instruction, operand or
// instruction-end address, written with a 0x or $ prefix) of a reference that resolves and is
// in range, while neither the location nor the label name of any failing reference appears.
// Such a message points the user at the wrong branch. Returns the misnamed reference.
func errNamesOnlySound(msg string, failing []asmRef, m *asmModel) *asmRef {
	vals := map[uint32]bool{}
	for _, t := range addrTokRe.FindAllStringSubmatch(msg, -1) {
		if v, err := strconv.ParseUint(t[1], 16, 32); err == nil {
			vals[uint32(v)] = true
		}
	}
	locs := func(r asmRef) []uint32 {
		width := uint32(1)
		if !r.S8 {
			width = 2
		}
		return []uint32{r.InsAddr, r.Operand, r.Operand + width}
	}
	bad := map[uint32]bool{}
	isFailing := map[uint32]bool{}
	for _, r := range failing {
		if strings.Contains(msg, r.Label) {
			return nil
		}
		isFailing[r.Operand] = true
		if la, def := m.Labels[r.Label]; def {
			bad[la] = true // the target of a failing reference may coincide with a sound one's location
		}
		for _, c := range locs(r) {
			bad[c] = true
			if vals[c] {
				return nil
			}
		}
	}
	for i := range m.Refs {
		r := m.Refs[i]
		if isFailing[r.Operand] {
			continue
		}
		for _, c := range locs(r) {
			if vals[c] && !bad[c] {
				return &m.Refs[i]
			}
		}
	}
	return nil
}

type c06result struct {
	postFail [][]byte // image after each failed Finalize
	v        *sim.Violation
}

func c06run(sc *sim.Scenario, env *sim.Env, st *sim.Stats, observe bool) c06result {
	var res c06result
	capacity := int(sc.C("cap"))
	if capacity < 0 {
		capacity = 0
	}
	if capacity > 1<<16+64 {
		capacity = 1<<16 + 64
	}
	gentext := sc.C("gentext") != 0
	target, guard := mkTarget(capacity, sc.Seed&2 == 2)
	e := asm.NewEmitter(target, gentext)
	m := newAsmModel(true, capacity, gentext)
	var emitted []byte // image as emitted, never patched
	viol := func(step int, oracle, f string, a ...interface{}) c06result {
		res.v = &sim.Violation{Oracle: oracle, Step: step, Msg: fmt.Sprintf(f, a...)}
		return res
	}
	failedBefore := false
	type keptErr struct {
		err  error
		text string
	}
	var kept []keptErr
	var seg cloneSeg
	seg.Nested = sc.Seed&8 != 0
	var mSave *asmModel       // the model before the block that is going through a clone
	segStart := -1            // index of the clone op of the block in flight
	dropped := map[int]bool{} // ops of blocks whose Append was refused: the original never got them
	for i, op := range sc.Ops {
		if st != nil {
			st.SimOps++
		}
		if op.K == "clone" {
			if !seg.active() {
				mSave = m.clone()
				segStart = i
				room := capacity
				if room < 1<<14 {
					room = 1 << 14 // the block itself always fits its own buffer
				}
				if msg := seg.begin(&e, room); msg != "" {
					return viol(i, "clone_panic", "%s", msg)
				}
				m.NoCap = true
				if st != nil {
					st.Probe("block_through_clone")
				}
				if sc.Seed&128 != 0 && seg.orig != nil {
					// the caller names the block's start on the original while the block itself is
					// being generated into the clone (label 11, if it is still free)
					lop := sim.Op{K: "label", N: []int64{11}}
					if _, taken := m.Labels[labelName(11)]; !taken {
						m.step(lop)
						if p, msg := asmApply(seg.orig, lop); p {
							return viol(i, "refusal_mismatch", "Label on the original while a clone is in flight panicked: %s", msg)
						}
						mSave = m.clone() // the label is the original's own: it stays if the block is refused
						mSave.NoCap = false
						if st != nil {
							st.Probe("label_on_original_while_clone_in_flight")
						}
					}
				}
			}
			continue
		}
		if op.K == "append" || (op.K == "finalize" && seg.active()) {
			if seg.active() {
				m.NoCap = false
				if m.Len > capacity {
					// the block does not fit. Whether the Append is refused is C19's and C16's
					// subject; here the caller recovers from the refusal and carries on: the
					// original then holds none of the block's labels and references
					_, msg := seg.end(&e)
					if msg == "" || mSave == nil {
						return res
					}
					m = mSave
					for j := segStart; j >= 0 && j <= i; j++ {
						dropped[j] = true
					}
					if st != nil {
						st.Probe("append_refused_then_carried_on")
						st.Fault("append_refused")
					}
					if env != nil {
						env.FaultYield("op")
					}
					continue
				}
				lenBefore := seg.orig.Len()
				block, msg := seg.end(&e)
				if msg != "" {
					return viol(i, "append_panic", "%s", msg)
				}
				after := snapEmitter(e)
				if after.Len != lenBefore+len(block) || after.Len != m.Len || after.PC != m.Addr {
					return viol(i, "pc_len", "after Append of a %d-byte block: Len=%d PC=%#x, model Len=%d PC=%#x", len(block), after.Len, after.PC, m.Len, m.Addr)
				}
				emitted = append(emitted, after.Bytes[lenBefore:]...)
			}
			if op.K == "append" {
				continue
			}
		}
		if op.K == "finalize" {
			pre := snapEmitter(e)
			wantOK, failing := m.finalizeExpect()
			var err error
			panicked, pv := sim.RecoverLib(func() { err = e.Finalize() })
			post := snapEmitter(e)
			if v := accessorViolation(post, i, op); v != nil {
				res.v = v
				return res
			}
			if observe {
				env.ObsBool(panicked)
				env.ObsErr(err)
				obsSnap(env, post)
			}
			if panicked {
				return viol(i, "finalize_panic", "Finalize panicked: %s", sim.PanicString(pv))
			}
			if !seg.active() && post.Len <= len(target) && string(target[:post.Len]) != string(post.Bytes) {
				// the program lives in the buffer the caller handed to NewEmitter (a ROM image,
				// say): that is where the operands have to end up, not only in what Bytes() returns
				j := firstDiff(target[:post.Len], post.Bytes)
				return viol(i, "target_buffer_stale", "after Finalize the caller's target buffer differs from Bytes() at offset %d: target %02x, Bytes() %02x", j, target[j], post.Bytes[j])
			}
			if !wantOK && !seg.active() && sc.Seed&64 != 0 {
				// the same calls on an emitter without a target buffer (a measuring pass): a
				// Finalize that must fail fails there too (one that would succeed has nowhere to
				// write its operands, so that case is not asked for)
				ne := asm.NewEmitter(nil, gentext)
				for j, o := range sc.Ops[:i] {
					if o.K != "finalize" && o.K != "clone" && o.K != "append" && !dropped[j] {
						asmApply(ne, o)
					}
				}
				var nerr error
				if np, _ := sim.RecoverLib(func() { nerr = ne.Finalize() }); !np && nerr == nil {
					return viol(i, "finalize_outcome", "on an emitter without a target buffer that received the same calls, Finalize returned nil although %d reference(s) cannot be resolved (first: %+v)", len(failing), first(failing))
				}
				if st != nil {
					st.Probe("finalize_on_nil_target_twin")
				}
			}
			if (err == nil) != wantOK {
				return viol(i, "finalize_outcome", "Finalize returned %v but model says ok=%v (%d failing references, first: %+v)", err, wantOK, len(failing), first(failing))
			}
			if post.Len != pre.Len || post.PC != pre.PC || post.Flags != pre.Flags {
				return viol(i, "finalize_moved_state", "Finalize changed Len/PC/Flags: %s", pre.diff(post, true))
			}
			for n, v := range pre.Labels {
				if post.Labels[n] != v {
					return viol(i, "finalize_changed_label", "Finalize changed label %s: %#x -> %#x", n, v, post.Labels[n])
				}
			}
			mask := m.operandMask(len(post.Bytes))
			if err == nil {
				for j := range post.Bytes {
					if !mask[j] && post.Bytes[j] != emitted[j] {
						return viol(i, "finalize_touched_other_byte", "after successful Finalize byte at offset %d (addr %#x) is %02x, emitted %02x, and it is not an operand byte of a label reference", j, m.Base+uint32(j), post.Bytes[j], emitted[j])
					}
				}
				for _, r := range m.Refs {
					la := m.Labels[r.Label]
					o := int(r.Operand - m.Base)
					if r.S8 {
						want := byte(int8(int64(la) - int64(r.Operand+1)))
						if post.Bytes[o] != want {
							return viol(i, "branch_operand_wrong", "branch at %#x to %s (%#x): operand byte %02x, want %02x (distance %d)", r.InsAddr, r.Label, la, post.Bytes[o], want, int64(la)-int64(r.Operand+1))
						}
					} else {
						if post.Bytes[o] != byte(la) || post.Bytes[o+1] != byte(la>>8) {
							return viol(i, "jump_operand_wrong", "jump at %#x to %s (%#x): operand %02x %02x, want %02x %02x", r.InsAddr, r.Label, la, post.Bytes[o], post.Bytes[o+1], byte(la), byte(la>>8))
						}
					}
				}
				if st != nil {
					st.Probe("finalize_ok")
					if failedBefore {
						st.Probe("fail_then_ok")
					}
				}
			} else {
				// an error value already handed to the caller keeps saying what it said
				for _, k := range kept {
					if now := sim.ErrText(k.err); now != k.text {
						return viol(i, "error_text_changed", "the error returned by an earlier Finalize read %q when it was returned and reads %q now (after a later Finalize failed with %q)", k.text, now, sim.ErrText(err))
					}
				}
				kept = append(kept, keptErr{err, sim.ErrText(err)})
				failedBefore = true
				res.postFail = append(res.postFail, post.Bytes)
				for j := range post.Bytes {
					if !mask[j] && post.Bytes[j] != pre.Bytes[j] {
						return viol(i, "failed_finalize_touched_other_byte", "failed Finalize (%v) changed byte at offset %d (%02x -> %02x), not an operand byte of a label reference", err, j, pre.Bytes[j], post.Bytes[j])
					}
				}
				if !errNamesFailing(sim.ErrText(err), failing, m) {
					return viol(i, "error_names_nothing_failing", "Finalize error %q does not name any failing reference (failing: %+v)", sim.ErrText(err), failing)
				}
				if r := errNamesOnlySound(sim.ErrText(err), failing, m); r != nil {
					return viol(i, "error_names_sound_reference", "Finalize error %q gives the location of the reference at %#x (operand %#x) to %s, which resolves and is in range, and of none of the failing ones (%+v)", sim.ErrText(err), r.InsAddr, r.Operand, r.Label, failing)
				}
				if st != nil {
					unres, rng := false, false
					for _, r := range failing {
						if _, def := m.Labels[r.Label]; def {
							rng = true
						} else {
							unres = true
						}
					}
					st.ProbeIf(unres, "finalize_fail_unresolved")
					st.ProbeIf(rng, "finalize_fail_range")
					st.Fault("finalize_failed")
				}
				env.FaultYield("op")
			}
			continue
		}

		if seg.active() {
			out := m.step(op)
			panicked, msg := asmApply(e, op)
			seg.mirror(op)
			if observe {
				env.ObsBool(panicked)
				env.ObsU64(uint64(e.PC()))
			}
			if panicked != (out.Refused != "") {
				return viol(i, "refusal_mismatch", "op %s inside a cloned block: model refused=%q, library panicked=%v (%s)", op, out.Refused, panicked, msg)
			}
			if !panicked && e.PC() != m.Addr {
				return viol(i, "pc_len", "op %s inside a cloned block: PC=%#x, model %#x", op, e.PC(), m.Addr)
			}
			if panicked && st != nil {
				st.Fault("refused_" + out.Refused)
			}
			continue
		}
		before := snapEmitter(e)
		out := m.step(op)
		var panicked bool
		var msg string
		var labelRet uint32
		if op.K == "label" {
			var pv interface{}
			panicked, pv = sim.RecoverLib(func() { labelRet = e.Label(labelName(op.Arg(0))) })
			msg = sim.PanicString(pv)
		} else {
			panicked, msg = asmApply(e, op)
		}
		after := snapEmitter(e)
		resyncFlags(m, e, op, out)
		if observe {
			env.ObsBool(panicked)
			obsSnap(env, after)
		}
		if v := accessorViolation(after, i, op); v != nil {
			res.v = v
			return res
		}
		if !guardIntact(guard) {
			return viol(i, "wrote_beyond_target", "op %s: bytes behind the target slice were written", op)
		}
		if panicked != (out.Refused != "") {
			return viol(i, "refusal_mismatch", "op %s: model refused=%q, library panicked=%v (%s)", op, out.Refused, panicked, msg)
		}
		if panicked {
			if st != nil {
				st.Fault("refused_" + out.Refused)
				st.ProbeIf(out.Refused == "duplabel", "dup_label")
				st.ProbeIf(out.Refused == "cap" && op.K == "ref", "ref_refused_for_capacity")
			}
			if d := before.diff(after, false); d != "" {
				return viol(i, "refusal_changed_state", "op %s was refused (%s) but changed state: %s", op, msg, d)
			}
			env.FaultYield("op")
			continue
		}
		if op.K == "label" && labelRet != m.Labels[labelName(op.Arg(0))] {
			return viol(i, "label_return", "Label(%s) returned %#x, model address %#x", labelName(op.Arg(0)), labelRet, m.Addr)
		}
		if after.PC != m.Addr || after.Len != m.Len {
			return viol(i, "pc_len", "after %s: PC=%#x Len=%d, model PC=%#x Len=%d", op, after.PC, after.Len, m.Addr, m.Len)
		}
		for n, v := range after.Labels {
			mv, ok := m.Labels[n]
			if (ok && int64(mv) != v) || (!ok && v != -1) {
				return viol(i, "label_state", "after %s: GetLabel(%s)=%#x, model %#x defined=%v", op, n, v, mv, ok)
			}
		}
		if string(after.Bytes[:before.Len]) != string(before.Bytes) {
			return viol(i, "emit_changed_earlier_bytes", "op %s modified bytes emitted earlier", op)
		}
		emitted = append(emitted, after.Bytes[before.Len:]...)
		if st != nil && op.K == "ref" {
			// distance probes are taken when the label is known
		}
	}
	if seg.active() {
		seg.end(&e)
	}
	if st != nil {
		for _, r := range m.Refs {
			if la, ok := m.Labels[r.Label]; ok && r.S8 {
				d := int64(la) - int64(r.Operand+1)
				if d > 60000 || d < -60000 {
					st.Probe("dist_across_bank")
					st.MarkNontrivial()
				}
				switch d {
				case -129, -128, -127, 126, 127, 128, 0, -2:
					st.Probe(fmt.Sprintf("dist_eq_%d", d))
					st.MarkNontrivial()
				}
				if la <= r.InsAddr {
					st.Probe("ref_backward")
				} else {
					st.Probe("ref_forward")
				}
			}
		}
		st.ProbeIf(len(m.Refs) > 16, "more_than_16_references")
		st.State(sim.HashU64(sim.HashU64(sim.HashU64(uint64(m.Len), uint64(m.Addr)), uint64(len(m.Refs))), uint64(len(m.Labels))))
	}
	return res
}

func first(f []asmRef) interface{} {
	if len(f) == 0 {
		return nil
	}
	return f[0]
}

func (c06) Exec(sc *sim.Scenario, env *sim.Env) *sim.Violation {
	sim.Activate(env)
	defer sim.Deactivate()
	env.SetWatchdog(uint64(len(sc.Ops)+4) * 4000000) // generous: only a loop that never ends may trip it
	r1 := c06run(sc, env, env.Stats, true)
	if r1.v != nil {
		return r1.v
	}
	if sc.C("dual") != 0 && len(r1.postFail) > 0 {
		// same history, another label-visiting order: both must satisfy the oracle; the
		// images after a failed Finalize may differ (probe: the schedule dimension is live)
		saved := env.Local
		env.Local = sim.ForkSeed(sc.Seed^0x5bd1e995, "local")
		r2 := c06run(sc, env, nil, false)
		env.Local = saved
		if r2.v != nil {
			r2.v.Msg += " (second label-visiting order)"
			return r2.v
		}
		for i := range r1.postFail {
			if i < len(r2.postFail) && string(r1.postFail[i]) != string(r2.postFail[i]) {
				env.Stats.Probe("order_changes_bytes")
				break
			}
		}
		env.Stats.Probe("dual_order_runs")
	}
	return nil
}
