package worlds

import (
	"bytes"
	"fmt"

	"github.com/alttpo/snes/emulator/cpu65c816"
	"github.com/alttpo/snes/emulator/cpualt"

	"verif/sim"
)

// C12 — Step accounts cycles faithfully and RunUntil always stops within its budget.
// Clock = the emulated cycle counter; time-out = RunUntil's budget; seams S3 (Logger) and
// S6 (callbacks); failure events STP/Reset. The simulator chooses program and start state,
// budget and target relative to the measured path (0, 1, cost of the first instruction +-1,
// exact cost of the path to the target +-1, large; target = start, n-th boundary, middle of
// an operand, right offset in the wrong bank, never), where callbacks sit, the logger's
// behaviour, and where Reset lands after STP. Liveness instrument: the yield watchdog.
type c12 struct{}

func init() { sim.Register(c12{}) }

func (c12) ID() string     { return "C12" }
func (c12) Level() string  { return "exploration" }
func (c12) QuickRuns() int { return 9600 }
func (c12) Rule() string {
	return "each evaluation is one of three kinds: (a) a generated program on emulator.System driven by RunUntil with budget/target placed relative to a measured reference pass, OnPC/OnWDM callbacks on chosen addresses and a simulated Logger, compared with a bare-Step twin that applies the property's own definition; (b) a generated program on a bare cpu65c816 or cpualt with a seeded STP/Reset lifecycle, monitored step by step (cycles >= 1, AllCycles delta, stop flag = STP executed since last Reset); (c) a single-opcode sweep over M x X x E x DL x page-cross x branch-outcome on both interpreters; distinct = distinct scenario hash; non-trivial = the budget expired inside the run, or the target was hit, or a callback fired, or STP/Reset occurred, or it is a sweep"
}
func (c12) Assumptions() []string {
	return []string{
		"callbacks only observe (record PC/AllCycles, disassemble), except that in one variant they restart the exported cycle total AllCycles (a host's per-frame counter): RunUntil's budget counts the cycles the call itself has consumed; callbacks that rewrite registers are not defined by the property",
		"cpualt has an OnPC field but no mechanism consulting it: 'where the interpreter offers callbacks' is taken to mean cpu65c816 for OnPC and both for OnWDM",
		"RunUntil keeps stepping after STP (the property only requires Step to report the stop)",
		"interrupt requests (TriggerIRQ; NMI through the exported Interrupt field) occur only in the bare-CPU lifecycle scripts, where the fetched opcode is predicted through the vector; OnPC is not registered in scripts that contain them",
		"a Step that panics (unclaimed C08: 'never crashes') ends the run, which is discarded and counted; when only RunUntil panics and the bare-Step twin does not, it is reported",
	}
}
func (c12) Components() map[string][]string {
	return map[string][]string{
		"real": {"emulator.System.RunUntil/CreateEmulator", "cpu65c816.CPU Step/Reset/OnPC/OnWDM", "cpualt.CPU Step/Reset/OnWDM", "bus.Bus, cpualt.Bus, memory.RAM, FakeHW"},
		"stub": {"SimSink/RCSink as Logger", "SimMem behind unattached ranges (System) or the whole space (bare CPUs)", "observer callbacks"},
	}
}

func (c12) Gen(r *sim.Rand, tier string, run uint64) *sim.Scenario {
	sc := &sim.Scenario{Cfg: map[string]int64{}}
	switch x := r.Intn(100); {
	case x < 45:
		sc.Cfg["kind"] = 0
		genStartState(r, sc.Cfg, 0)
		sc.Ops = genProgram(r, r.Range(5, 50), byte(sc.Cfg["p"]), byte(sc.Cfg["e"]))
		sc.Cfg["budgetmode"] = int64(r.Intn(5))
		sc.Cfg["budget"] = int64(sim.PickInt(r, 0, 1, 2, 3, 50, 400, 1500, r.Range(0, 2500)))
		sc.Cfg["delta"] = int64(r.Range(-1, 1))
		sc.Cfg["targetmode"] = int64(r.Intn(6))
		sc.Cfg["tk"] = int64(r.Intn(60))
		sc.Cfg["cbsel"] = int64(r.Intn(5))
		sc.Cfg["cbdis"] = int64(r.Intn(2))
		if r.Chance(1, 6) {
			sc.Cfg["cbzero"] = 1
		} else if r.Chance(1, 6) {
			sc.Cfg["cbnest"] = int64(sim.PickInt(r, 1, 1, 2, 100)) // budget of the nested call + 1
		}
		sc.Cfg["wdm"] = int64(r.Intn(2))
		sc.Cfg["sink"] = int64(sim.PickInt(r, -1, -1, 0, 0, 1, 2, 3))
		sc.Cfg["sinkk"] = int64(r.Intn(30))
		sc.Cfg["rc"] = int64(r.Intn(2))
		sc.Cfg["again"] = int64(r.Intn(3) / 2) // a second RunUntil call on the same System
		if r.Chance(1, 6) {
			placeAtBankEnd(r, sc, false)
		}
		if r.Chance(1, 25) {
			// a long wait loop: a few thousand instructions, stopped by the cycle budget alone
			// (whatever the clock on the wall says meanwhile)
			sc.Ops = []sim.Op{{K: "i", B: []byte{0xEA}}, {K: "i", B: []byte{0x80, 0xFD}}}
			if r.Chance(1, 2) {
				sc.Ops = []sim.Op{{K: "i", B: []byte{0x80, 0xFE}}}
			}
			sc.Cfg["budgetmode"] = 0
			sc.Cfg["budget"] = int64(r.Range(3100, 6000))
			sc.Cfg["targetmode"] = 5
			sc.Cfg["again"] = 0
		}
	case x < 80:
		kind := int64(1 + r.Intn(2))
		sc.Cfg["kind"] = kind
		genStartState(r, sc.Cfg, int(kind))
		sc.Cfg["pc"] = int64(sim.PickInt(r, 0x8000, 0x0200, 0xFF00, r.Intn(0xFF00))) // bank 0: Reset returns here
		ops := genProgram(r, r.Range(5, 40), byte(sc.Cfg["p"]), byte(sc.Cfg["e"]))
		// make STP likely
		for i := 0; i < r.Intn(3); i++ {
			at := r.Intn(len(ops) + 1)
			ops = append(ops[:at], append([]sim.Op{{K: "i", B: []byte{0xDB}}}, ops[at:]...)...)
		}
		n := r.Range(1, 6)
		for i := 0; i < n; i++ {
			if r.Chance(1, 3) {
				ops = append(ops, sim.Op{K: "reset"})
			} else if r.Chance(1, 8) {
				// the caller takes a copy of the CPU with InitFrom between two instructions and
				// carries on with the copy (0) or with the original (1): not a reset
				ops = append(ops, sim.Op{K: "initfrom", N: []int64{int64(r.Intn(2))}})
			} else if r.Chance(1, 4) {
				// an interrupt request between two instructions (accepted only while I = 0;
				// CLI first makes that likely); N[0] = 1 requests an NMI instead
				ops = append(ops, sim.Op{K: "irq", N: []int64{int64(r.Intn(3) / 2)}})
				if r.Chance(1, 4) {
					// a copy is taken while the request is pending
					ops = append(ops, sim.Op{K: "initfrom", N: []int64{int64(r.Intn(2))}})
				}
			} else {
				ops = append(ops, sim.Op{K: "step", N: []int64{int64(r.Range(1, 80))}})
			}
		}
		sc.Ops = ops
		sc.Cfg["wdm"] = int64(r.Intn(2))
		if kind == 2 && r.Chance(1, 8) {
			sc.Cfg["forkinhook"] = 1
		}
		if kind == 1 && r.Chance(1, 5) {
			// a WDM whose opcode is the last byte of a 16-byte segment, the operand being served
			// by another device
			nprog := 0
			for nprog < len(ops) && ops[nprog].K == "i" {
				nprog++
			}
			k := r.Intn(nprog + 1)
			wd := sim.Op{K: "i", B: []byte{0x42, byte(r.Intn(256))}}
			prog := 0
			for _, op := range ops[:k] {
				if op.K == "i" {
					prog += len(op.B)
				}
			}
			ops = append(ops[:k], append([]sim.Op{wd}, ops[k:]...)...)
			pc := sc.Cfg["pc"]
			at := (pc + int64(prog)) & 0xFFFF
			pc = (pc + (0xF-at)&0xF) & 0xFFFF
			sc.Cfg["pc"] = pc
			sc.Cfg["split"] = (pc + int64(prog) + 1) & 0xFFFF
			sc.Cfg["wdm"] = 1
			sc.Ops = ops
		}
		if r.Chance(1, 4) {
			sc.Cfg["faulty"] = 1
		}
		if kind == 1 && r.Chance(1, 20) {
			sc.Cfg["initfrom"] = int64(r.Range(1, 2))
		}
		if r.Chance(1, 6) {
			placeAtBankEnd(r, sc, true)
			sc.Cfg["wdm"] = 1
		}
	default:
		sc.Cfg["kind"] = 3
		sc.Cfg["opcode"] = int64(run % 256)
		if r.Chance(1, 4) {
			sc.Cfg["opcode"] = int64(r.Intn(256))
		}
		sc.Cfg["fillseed"] = int64(r.Intn(1<<30) + 1)
		sc.Cfg["a"] = int64(r.Intn(0x10000))
		sc.Cfg["x"] = int64(r.Intn(0x100))
		sc.Cfg["y"] = int64(r.Intn(0x100))
		sc.Cfg["o1"] = int64(r.Intn(256))
		sc.Cfg["o2"] = int64(r.Intn(0x70))
		sc.Cfg["o3"] = int64(r.Intn(0x70))
	}
	return sc
}

// placeAtBankEnd moves the start address so that instruction k of the program begins on the
// last bytes of its bank; with wdm it also makes that instruction a WDM (operand across the wrap).
func placeAtBankEnd(r *sim.Rand, sc *sim.Scenario, keepBank bool) {
	var idx []int
	for i, op := range sc.Ops {
		if op.K == "i" {
			idx = append(idx, i)
		}
	}
	if len(idx) == 0 {
		return
	}
	k := idx[r.Intn(len(idx))]
	if r.Chance(1, 2) {
		sc.Ops[k].B = []byte{0x42, byte(r.Intn(256))}
	}
	off := 0
	for _, op := range sc.Ops[:k] {
		if op.K == "i" {
			off += len(op.B)
		}
	}
	edge := int64(sim.PickInt(r, 0xFFFD, 0xFFFE, 0xFFFF, 0xFFFF))
	if int64(off) < edge {
		bank := sc.Cfg["pc"] & 0xFF0000
		if !keepBank {
			bank = int64(sim.PickInt(r, 0x7E0000, 0x000000, 0x010000, 0x7F0000, 0x3F0000))
		}
		sc.Cfg["pc"] = bank | (edge - int64(off))
	}
}

func (c c12) Exec(sc *sim.Scenario, env *sim.Env) *sim.Violation {
	sim.Activate(env)
	defer sim.Deactivate()
	switch sc.C("kind") {
	case 0:
		return c12sys(sc, env)
	case 1, 2:
		return c12bare(sc, env)
	default:
		return c12sweep(sc, env)
	}
}

type stepRec struct {
	R      Regs
	Ins    [4]byte
	Cycles int
}

// refRun applies the property's definition of RunUntil with bare Step calls.
// brokeInLoop: the loop ended at its target check (the traced run prints one more line).
func refRun(sm *SysMachine, target uint32, budget uint64, maxSteps int) (recs []stepRec, onTarget bool, panicMsg string, brokeInLoop bool) {
	cpu := cpuA{&sm.S.CPU}
	p, pv := sim.RecoverLib(func() {
		for cycles := uint64(0); cycles < budget && len(recs) < maxSteps; {
			r := cpu.Regs()
			if r.PCL() == target {
				onTarget = true
				brokeInLoop = true
				return
			}
			var rec stepRec
			rec.R = r
			for k := 0; k < 4; k++ {
				rec.Ins[k] = peekSys(sm, uint32(r.RK)<<16|uint32(r.PC+uint16(k)))
			}
			n, _ := cpu.Step()
			rec.Cycles = n
			recs = append(recs, rec)
			cycles += uint64(n)
		}
	})
	if p {
		panicMsg = sim.PanicString(pv)
		if panicMsg == "" {
			panicMsg = "panic"
		}
	}
	if !onTarget && cpu.Regs().PCL() == target {
		onTarget = true
	}
	return
}

func c12sys(sc *sim.Scenario, env *sim.Env) *sim.Violation {
	st := env.Stats
	env.SetWatchdog(0)
	mkHole := func() *SimMem {
		m := NewSimMem(env, 0, uint64(sc.C("fillseed"))^0x401e)
		m.NoLog = true
		return m
	}
	// pre-pass: measure the path (costs and instruction boundaries)
	smP, err := NewSysMachine(env, 1, mkHole())
	if err != nil {
		return &sim.Violation{Oracle: "HARNESS_PANIC", Msg: err.Error()}
	}
	loadSystem(smP, sc)
	pre, _, prePanic, _ := refRun(smP, 0xFFFFFFFF, 4000, 700)
	if prePanic != "" && len(pre) == 0 {
		st.Abort("first_step_panics")
		return nil
	}
	start := uint32(sc.C("pc")) & 0xFFFFFF
	// target
	target := uint32(0xFFFFFF)
	k := int(sc.C("tk"))
	switch sc.C("targetmode") {
	case 0:
		target = start
	case 1, 2: // the k-th instruction boundary actually visited
		if len(pre) > 0 {
			target = pre[k%len(pre)].R.PCL()
		}
	case 3: // the middle of an operand
		if len(pre) > 0 {
			r := pre[k%len(pre)].R
			target = uint32(r.RK)<<16 | uint32(r.PC+1)
		}
	case 4: // right offset, wrong bank
		if len(pre) > 0 {
			r := pre[k%len(pre)].R
			target = uint32(r.RK^0x01)<<16 | uint32(r.PC)
		}
	}
	// budget
	budget := uint64(sc.C("budget"))
	delta := sc.C("delta")
	switch sc.C("budgetmode") {
	case 1: // cost of the first instruction +- 1
		if len(pre) > 0 {
			budget = uint64(int64(pre[0].Cycles) + delta)
		}
	case 2: // exact cost of the path to the target +- 1
		var sum int64
		for _, r := range pre {
			if r.R.PCL() == target {
				break
			}
			sum += int64(r.Cycles)
		}
		if sum+delta >= 0 {
			budget = uint64(sum + delta)
		}
	}
	huge := false
	if sc.C("budgetmode") == 4 {
		// a budget beyond 32 bits with a target that is reached: the budget is a uint64 and
		// must not be narrowed on the way
		reach := false
		for _, r := range pre {
			if r.R.PCL() == target {
				reach = true
			}
		}
		if reach || start == target {
			budget = 1<<32 + uint64(sc.C("budget")&0xFF)
			switch sc.C("budget") & 3 {
			case 1:
				budget = 1<<63 + uint64(sc.C("budget")&0xFF) // "unlimited", beyond what an int holds
			case 2:
				budget = ^uint64(0)
			}
			huge = true
			st.Probe("budget_beyond_32_bits")
		}
	}
	if budget > 6000 && !huge {
		budget = 6000
	}
	stepBound := int(budget) + 2
	wdBound := (budget + 10) * 8000
	if huge {
		stepBound = len(pre) + 2
		wdBound = uint64(len(pre)+10) * 16 * 4000
	}

	// reference twin: every instruction consumes >= 1 cycle, so at most `budget` instructions
	smR, err := NewSysMachine(env, 1, mkHole())
	if err != nil {
		return &sim.Violation{Oracle: "HARNESS_PANIC", Msg: err.Error()}
	}
	loadSystem(smR, sc)
	recs, refOnTarget, refPanic, refBroke := refRun(smR, target, budget, stepBound)
	again := sc.C("again") != 0 && !huge
	var recs2 []stepRec
	if again && refPanic == "" {
		// the host calls RunUntil a second time with the same target and budget: a fresh budget,
		// nothing carried over from the first call
		var p2 string
		recs2, refOnTarget, p2, refBroke = refRun(smR, target, budget, stepBound)
		refPanic = p2
		recs = append(recs, recs2...)
	}
	regsR := cpuA{&smR.S.CPU}.Regs()
	refStalled := !huge && len(recs) > int(budget)*2+2

	// world A: the real RunUntil, with observers
	smA, err := NewSysMachine(env, 0, mkHole())
	if err != nil {
		return &sim.Violation{Oracle: "HARNESS_PANIC", Msg: err.Error()}
	}
	loadSystem(smA, sc)
	s := smA.S
	var ss *sim.SimSink
	if sc.C("sink") >= 0 {
		w, sk, _ := sinkFor(env, sc)
		s.Logger = w
		ss = sk
	}
	// callbacks
	type cbEvent struct {
		addr      uint32
		pcAtCall  uint32
		allCycles uint64
		lines     int
	}
	var cbEvents []cbEvent
	cbAddrs := map[uint32]bool{}
	sel := sc.C("cbsel")
	if sel > 0 {
		for i, r := range recs {
			switch sel {
			case 1:
				if i%3 == 0 {
					cbAddrs[r.R.PCL()] = true
				}
			case 2:
				cbAddrs[r.R.PCL()] = true
			case 3:
				if i == 0 {
					cbAddrs[r.R.PCL()] = true
					cbAddrs[uint32(r.R.RK)<<16|uint32(r.R.PC+1)] = true // operand middle: must never fire unless executed
				}
			}
		}
		if sel == 4 || sel == 2 {
			cbAddrs[target] = true
		}
	}
	cbzero := sc.C("cbzero") != 0 && !again
	cbnest := sc.C("cbnest") != 0 && !again
	nestedWrong := false
	nestDepth, nestedFiredHook := 0, false
	onpc := map[uint32]func(){}
	for a := range cbAddrs {
		a := a
		onpc[a] = func() {
			env.Yield("cb.pc")
			ev := cbEvent{addr: a, pcAtCall: s.GetPC(), allCycles: s.CPU.AllCycles}
			if ss != nil {
				ev.lines = ss.Calls
			}
			if sc.C("cbdis") != 0 {
				var oa [100]byte
				_ = s.CPU.DisassembleCurrentPC(oa[:0])
			}
			cbEvents = append(cbEvents, ev)
			if cbnest && nestDepth > 0 {
				// a run that executes nothing fetches nothing: it has no business firing hooks
				// (left alone, this recursion would overflow the stack, which no one can recover)
				nestedFiredHook = true
			} else if cbnest {
				// the host asks, from inside its hook, for a run to where the CPU already is: by
				// the property that executes nothing, and it is no business of the run in progress
				nested := false
				nestDepth++
				sim.RecoverLib(func() { nested = s.RunUntil(s.GetPC(), uint64(sc.C("cbnest"))-1) })
				nestDepth--
				if !nested {
					nestedWrong = true
				}
			}
			if cbzero {
				// the host keeps a per-frame cycle counter in the exported total and restarts it
				// here: RunUntil's budget counts the cycles *it* has consumed, whatever the
				// caller does to the running total
				s.CPU.AllCycles = 0
			}
		}
	}
	if len(onpc) > 0 {
		installHooks(&s.CPU, onpc)
	}
	// second hook set for the second call: as many hooks, at addresses visited by the second
	// call, preferably in banks the first set does not touch
	onpc2 := map[uint32]func(){}
	cbAddrs2 := map[uint32]bool{}
	if again && len(onpc) > 0 && len(recs2) > 0 {
		banks1 := map[byte]bool{}
		for a := range cbAddrs {
			banks1[byte(a>>16)] = true
		}
		var pref, other []uint32
		seen := map[uint32]bool{}
		for _, r := range recs2 {
			a := r.R.PCL()
			if seen[a] {
				continue
			}
			seen[a] = true
			if banks1[r.R.RK] {
				other = append(other, a)
			} else {
				pref = append(pref, a)
			}
		}
		cand := append(pref, other...)
		for len(cand) > 0 && len(cbAddrs2) < len(cbAddrs) {
			cbAddrs2[cand[0]] = true
			cand = cand[1:]
		}
		for n := uint32(0); len(cbAddrs2) < len(cbAddrs); n++ {
			cbAddrs2[0xEE0000|n] = true // filler hooks that are never reached keep the count equal
		}
		for a := range cbAddrs2 {
			a := a
			onpc2[a] = func() {
				env.Yield("cb.pc")
				ev := cbEvent{addr: a, pcAtCall: s.GetPC(), allCycles: s.CPU.AllCycles}
				cbEvents = append(cbEvents, ev)
			}
		}
		st.ProbeIf(len(pref) > 0, "hooks_replaced_in_new_bank")
		st.Probe("hooks_replaced_between_calls")
	}
	var wdmArgs []byte
	if sc.C("wdm") != 0 {
		s.CPU.OnWDM = func(b byte) {
			env.Yield("cb.wdm")
			wdmArgs = append(wdmArgs, b)
		}
	}
	// liveness: every instruction consumes >= 1 cycle, so RunUntil executes at most `budget`
	// instructions; 4000 yields per instruction is far above the slowest traced instruction
	env.SetWatchdog(wdBound)
	var ret bool
	pA, pvA, wd := sim.RecoverWD(func() {
		ret = s.RunUntil(target, budget)
		if again {
			if len(onpc2) > 0 {
				installHooks(&s.CPU, onpc2) // the host replaces its hooks between two calls (same number of hooks)
			}
			ret = s.RunUntil(target, budget)
		}
	})
	st.ProbeIf(again, "rununtil_called_twice")
	env.SetWatchdog(0)
	regsA := cpuA{&s.CPU}.Regs()
	st.SimCycles += regsA.AllCycles + regsR.AllCycles
	env.ObsBool(ret)
	env.ObsU64(regsA.Hash())
	if wd {
		return &sim.Violation{Oracle: "rununtil_no_termination", Step: -1,
			Msg: fmt.Sprintf("RunUntil(target=%06x, budget=%d) did not return within %d yield points (AllCycles=%d, PC=%06x): an instruction that consumes no cycles keeps the loop alive", target, budget, wdBound, regsA.AllCycles, regsA.PCL())}
	}
	if refStalled {
		return &sim.Violation{Oracle: "step_cycles_lt_1", Step: -1, Msg: fmt.Sprintf("the bare-Step twin executed %d instructions without consuming %d cycles: some Step reported 0 cycles", len(recs), budget)}
	}
	if pA != (refPanic != "") {
		return &sim.Violation{Oracle: "rununtil_vs_definition", Step: -1,
			Msg: fmt.Sprintf("RunUntil panicked=%v (%s); bare-Step twin applying the definition panicked=%q", pA, sim.PanicString(pvA), refPanic)}
	}
	if pA {
		// RunUntil and the bare-Step twin panic alike: a crashing Step is C08's business
		st.Abort("step_panic_both_worlds")
		return nil
	}
	// the property's sentences
	if ret != (regsA.PCL() == target) {
		return &sim.Violation{Oracle: "rununtil_result", Step: -1, Msg: fmt.Sprintf("RunUntil returned %v with PC=%06x target=%06x", ret, regsA.PCL(), target)}
	}
	if (start == target || budget == 0) && regsA.AllCycles != 0 && !again {
		return &sim.Violation{Oracle: "rununtil_executed_at_target_or_zero_budget", Step: -1,
			Msg: fmt.Sprintf("start=%06x target=%06x budget=%d: RunUntil executed instructions (AllCycles=%d)", start, target, budget, regsA.AllCycles)}
	}
	if cbnest && len(cbEvents) > 0 {
		st.Probe("hook_calls_rununtil_to_here")
		if nestedWrong {
			return &sim.Violation{Oracle: "rununtil_result", Step: -1, Msg: "a RunUntil to the address the CPU is at, called from a program-counter hook, did not return true"}
		}
		if nestedFiredHook {
			return &sim.Violation{Oracle: "onpc_count", Step: -1, Msg: "a RunUntil to the address the CPU is already at (it executes nothing, so it fetches nothing) ran the program-counter hook registered there"}
		}
	}
	if cbzero && len(cbEvents) > 0 {
		st.Probe("hook_restarts_cycle_total")
		regsA.AllCycles = regsR.AllCycles // the hooks restarted the total: not comparable
	}
	if d := regsA.Diff(regsR, false); d != "" {
		return &sim.Violation{Oracle: "rununtil_vs_definition", Step: -1,
			Msg: fmt.Sprintf("RunUntil(target=%06x, budget=%d) vs bare-Step twin (%d instructions, stops when consumed >= budget or PC = target): %s", target, budget, len(recs), d)}
	}
	if !bytes.Equal(smA.S.WRAM[:], smR.S.WRAM[:]) || !bytes.Equal(smA.S.SRAM[:], smR.S.SRAM[:]) || !bytes.Equal(smA.S.ROM[:0x200000], smR.S.ROM[:0x200000]) {
		return &sim.Violation{Oracle: "rununtil_vs_definition", Step: -1, Msg: "RunUntil and its bare-Step twin leave different memory"}
	}
	// each instruction was started with consumed < budget, none fetched at the target
	var consumed uint64
	firstCall := len(recs) - len(recs2)
	for i, r := range recs {
		if i == firstCall {
			consumed = 0 // the second call starts with a fresh budget
		}
		if consumed >= budget {
			return &sim.Violation{Oracle: "HARNESS_PANIC", Step: i, Msg: "reference loop broke its own definition"}
		}
		consumed += uint64(r.Cycles)
	}
	st.ProbeIf(refOnTarget, "stopped_on_target")
	st.ProbeIf(!refOnTarget && len(recs) > 0, "stopped_on_budget")
	st.ProbeIf(len(recs) == 0, "executed_nothing")
	if len(recs) > 0 && !refOnTarget {
		last := recs[len(recs)-1]
		st.ProbeIf(consumed-uint64(last.Cycles) == budget-1, "budget_expired_inside_last_instruction")
		st.ProbeIf(consumed == budget, "budget_exact")
	}
	if refOnTarget || (len(recs) > 0) {
		st.MarkNontrivial()
	}
	// callbacks: exactly once before each instruction fetched at a registered address
	if len(onpc) > 0 {
		want := map[uint32]int{}
		hooked := func(i int, a uint32) bool {
			if len(onpc2) > 0 && i >= firstCall {
				return cbAddrs2[a]
			}
			return cbAddrs[a]
		}
		for i, r := range recs {
			if hooked(i, r.R.PCL()) {
				want[r.R.PCL()]++
			}
		}
		for a := range cbAddrs2 {
			cbAddrs[a] = cbAddrs[a] || false
		}
		got := map[uint32]int{}
		for _, ev := range cbEvents {
			got[ev.addr]++
			if ev.pcAtCall != ev.addr {
				return &sim.Violation{Oracle: "onpc_wrong_address", Step: -1, Msg: fmt.Sprintf("callback registered at %06x ran while PC=%06x", ev.addr, ev.pcAtCall)}
			}
		}
		all := map[uint32]bool{}
		for a := range cbAddrs {
			all[a] = true
		}
		for a := range cbAddrs2 {
			all[a] = true
		}
		for a := range all {
			if got[a] != want[a] {
				return &sim.Violation{Oracle: "onpc_count", Step: -1,
					Msg: fmt.Sprintf("callback at %06x ran %d times; %d instructions were fetched there (target=%06x)", a, got[a], want[a], target)}
			}
		}
		// order: the i-th callback overall belongs to the i-th visit of a registered address;
		// it must see the cycle total of that instant (i.e. run before the instruction)
		idx := 0
		var cyc uint64
		for i, r := range recs {
			if hooked(i, r.R.PCL()) {
				if idx < len(cbEvents) {
					ev := cbEvents[idx]
					if ev.addr != r.R.PCL() || ev.allCycles != cyc {
						return &sim.Violation{Oracle: "onpc_order", Step: -1,
							Msg: fmt.Sprintf("callback #%d ran for %06x with AllCycles=%d; expected before the instruction at %06x with AllCycles=%d", idx, ev.addr, ev.allCycles, r.R.PCL(), cyc)}
					}
				}
				if cbzero {
					cyc = 0
				}
				idx++
			}
			cyc += uint64(r.Cycles)
		}
		st.ProbeIf(len(cbEvents) > 0, "onpc_fired")
		st.ProbeIf(cbAddrs[target] && refOnTarget, "onpc_registered_at_target_not_run")
	}
	if sc.C("wdm") != 0 {
		var want []byte
		for _, r := range recs {
			if r.Ins[0] == 0x42 {
				want = append(want, r.Ins[1])
			}
		}
		if string(want) != string(wdmArgs) {
			return &sim.Violation{Oracle: "onwdm", Step: -1, Msg: fmt.Sprintf("OnWDM received % x; the WDM instructions executed had operands % x", wdmArgs, want)}
		}
		st.ProbeIf(len(want) > 0, "onwdm_fired")
	}
	if ss != nil {
		// how many Write calls the logger receives is not part of the property (a buffering
		// implementation is free to batch lines); only that logger faults change nothing
		_ = refBroke
		st.ProbeIf(ss.Failed > 0, "logger_fault_fired")
	}
	st.State(regsA.Hash())
	return nil
}

func c12bare(sc *sim.Scenario, env *sim.Env) *sim.Violation {
	st := env.Stats
	env.SetWatchdog(200000000)
	mem := NewSimMem(env, 0, uint64(sc.C("fillseed"))^0xba5e)
	mem.NoLog = true
	loadSimMem(mem, sc)
	if sc.C("faulty") != 0 {
		// banks $C0-$FF are not there: an access faults (the Step that makes it panics, which
		// ends the run as far as this property goes; a Step that swallows the fault goes on,
		// and still has to tell the truth about STP)
		mem.Fault = func(a uint32) bool {
			if a>>16 >= 0xC0 {
				st.Fault("device_fault")
				return true
			}
			return false
		}
	}
	pc := uint32(sc.C("pc")) & 0xFFFF
	mem.Poke(0x00FFFC, byte(pc))
	mem.Poke(0x00FFFD, byte(pc>>8))
	var mc *Machine
	var splitLo uint32
	var splitMem *SimMem
	if sc.C("kind") == 1 {
		mc = NewAltMachine(env, 0, mem, 0, 0)
		if sp := uint32(sc.C("split")) & 0xFFFFF0; sp != 0 && sc.C("initfrom") == 0 {
			// a second device, behind closures of its own, serves 4 KiB from a 16-byte boundary
			// inside the program (right behind a WDM opcode); what the first device holds there
			// is something else
			second := NewSimMem(env, 1, uint64(sc.C("fillseed"))^0x5ec1)
			second.NoLog = true
			loadSimMem(second, sc)
			SplitAlt(mc, second, sp)
			for a := sp; a < sp+0x1000 && a <= 0xFFFFFF; a++ {
				mem.Poke(a, second.Peek(a)^0xFF)
			}
			splitLo, splitMem = sp, second
			st.Probe("wdm_operand_in_another_device")
		}
		if f := sc.C("initfrom"); f != 0 {
			// the script runs on a copy made with InitFrom, onto a fresh or a used receiver
			cp := &cpualt.CPU{}
			if f == 2 {
				cp.Init()
			}
			cp.InitFrom(mc.altB)
			mc = &Machine{CPU: cpuB{cp}, Mem: mem, altB: cp}
			st.Probe("cpu_made_with_InitFrom")
		}
	} else {
		mc = NewBusMachine(env, 0, mem)
	}
	cpu := mc.CPU
	r0 := startRegs(sc)
	r0.RK = 0
	cpu.SetRegs(r0)
	var wdmArgs, wdmWant []byte
	if sc.C("wdm") != 0 {
		cpu.SetOnWDM(func(b byte) { env.Yield("cb.wdm"); wdmArgs = append(wdmArgs, b) })
	}
	// OnPC on the bare cpu65c816: must run before the opcode fetch of that step
	type pcev struct {
		step  int
		reads uint64
	}
	var pcEvents []pcev
	stepNo := 0
	var readsAtStepStart uint64
	cbAddr := uint32(pc)
	hasIRQ := false
	for _, op := range sc.Ops {
		if op.K == "irq" {
			hasIRQ = true
		}
	}
	var onpc map[uint32]func()
	var forked CPUI // a snapshot taken from inside the hook, to be switched to after the current Step
	switched := false
	if sc.C("kind") == 2 && !hasIRQ {
		onpc = map[uint32]func(){cbAddr: func() {
			env.Yield("cb.pc")
			pcEvents = append(pcEvents, pcev{stepNo, mem.Reads - readsAtStepStart})
			if sc.C("forkinhook") != 0 && forked == nil && mc.busA != nil {
				// the host takes a snapshot of the CPU from inside its hook (a save state at a
				// breakpoint) and carries on with it once this instruction is done
				if src, ok := cpu.(cpuA); ok {
					c2 := &cpu65c816.CPU{}
					if p, _ := sim.RecoverLib(func() { c2.InitFrom(src.c, mc.busA) }); !p {
						forked = cpuA{c2}
						st.Probe("cpu_forked_inside_its_hook")
					}
				}
			}
		}}
		cpu.SetOnPC(onpc)
	}
	stopped := false
	visits := 0
	total := uint64(0)
	for i, op := range sc.Ops {
		switch op.K {
		case "reset":
			p, pv := sim.RecoverLib(func() { cpu.Reset() })
			if p {
				return &sim.Violation{Oracle: "reset_panic", Step: i, Msg: sim.PanicString(pv)}
			}
			stopped = false
			st.Fault("reset")
			env.FaultYield("op")
			if cpu.Regs().Stopped {
				return &sim.Violation{Oracle: "stop_flag_after_reset", Step: i, Msg: "Stopped still set after Reset"}
			}
		case "initfrom":
			before := cpu.Regs()
			var cp CPUI
			p, pv := sim.RecoverLib(func() {
				switch src := cpu.(type) {
				case cpuA:
					c2 := &cpu65c816.CPU{}
					c2.InitFrom(src.c, mc.busA)
					cp = cpuA{c2}
				case cpuB:
					c2 := &cpualt.CPU{}
					c2.InitFrom(src.c)
					cp = cpuB{c2}
				}
			})
			if p || cp == nil {
				return &sim.Violation{Oracle: "initfrom_panic", Step: i, Msg: sim.PanicString(pv)}
			}
			st.Probe("initfrom_midscript")
			if d := before.Diff(cpu.Regs(), true); d != "" {
				return &sim.Violation{Oracle: "initfrom_changed_source", Step: i, Msg: "taking a copy with InitFrom changed the CPU it was taken from: " + d}
			}
			if cp.Regs().Stopped != stopped {
				return &sim.Violation{Oracle: "stop_flag", Step: i, Msg: fmt.Sprintf("%s: a copy taken with InitFrom has Stopped=%v; STP executed since the last Reset: %v (InitFrom is not a reset)", cpu.Kind(), cp.Regs().Stopped, stopped)}
			}
			if op.Arg(0) != 0 {
				// carry on with the original; the copy is recycled for something else (re-initialised):
				// none of the original's business, its hooks included
				sim.RecoverLib(func() {
					if c2, ok := cp.(cpuA); ok { // (cpualt's Init rebuilds ~2 million closures: too slow to do per run)
						c2.c.Init(mc.busA)
					}
				})
				st.Probe("copy_recycled_with_Init")
			}
			if op.Arg(0) == 0 {
				// carry on with the copy; the caller installs its callbacks on it
				cpu = cp
				if sc.C("wdm") != 0 {
					cpu.SetOnWDM(func(b byte) { env.Yield("cb.wdm"); wdmArgs = append(wdmArgs, b) })
				}
				if onpc != nil {
					cpu.SetOnPC(onpc)
				}
			}
		case "irq":
			// the property says the stop condition holds "until the CPU is reset": an interrupt
			// request is one of the things that must not end it
			if op.Arg(0) == 1 {
				r := cpu.Regs()
				r.Interrupt = 2 // NMI, through the exported field (there is no TriggerNMI)
				cpu.SetRegs(r)
			} else {
				sim.RecoverLib(func() { cpu.TriggerIRQ() })
			}
			st.Fault("interrupt_request")
			env.FaultYield("op")
		case "step":
			n := int(op.Arg(0))
			if n > 200 {
				n = 200
			}
			for k := 0; k < n; k++ {
				r := cpu.Regs()
				fetch := r.PCL()
				// what the CPU sees at an address: the second device where it is attached (which
				// may cover the vectors), the first one elsewhere
				peek := func(a uint32) byte {
					if splitMem != nil && a >= splitLo && a < splitLo+0x1000 {
						return splitMem.Peek(a)
					}
					return mem.Peek(a)
				}
				switch r.Interrupt {
				case 2: // NMI: vector $00:FFEA, program bank unchanged by this implementation
					fetch = uint32(r.RK)<<16 | uint32(peek(0xFFEA)) | uint32(peek(0xFFEB))<<8
				case 3: // IRQ: vector $00:FFEE
					fetch = uint32(peek(0xFFEE)) | uint32(peek(0xFFEF))<<8
				}
				if r.Interrupt == 2 || r.Interrupt == 3 {
					st.Probe("interrupt_taken")
					// the interrupt sequence pushes 3-4 bytes below SP in bank 0; if they land on
					// the handler's first bytes the opcode cannot be predicted from outside
					if fetch>>16 == 0 && uint16(fetch)+1 >= r.SP-4 && uint16(fetch) <= r.SP+1 {
						st.Abort("interrupt_stack_overlaps_handler")
						return nil
					}
				}
				opc := peek(fetch)
				opd := peek(fetch&0xFF0000 | uint32(uint16(fetch)+1))
				atHook := r.PCL() == cbAddr && !hasIRQ
				stepNo++
				stoppedBefore := stopped
				readsAtStepStart = mem.Reads
				var cyc int
				var flag bool
				p, pv := sim.RecoverLib(func() { cyc, flag = cpu.Step() })
				if p {
					_ = pv // a crashing Step is C08's business, not this property's
					st.Abort("step_panic")
					return nil
				}
				if atHook && mem.Reads > readsAtStepStart {
					visits++ // an instruction was fetched there (a step that reads nothing, e.g. a CPU idling in WAI, fetches none)
				}
				st.SimCycles += uint64(cyc)
				ra := cpu.Regs()
				env.ObsInt(cyc)
				env.ObsBool(flag)

				if cyc < 1 {
					return &sim.Violation{Oracle: "step_cycles_lt_1", Step: i, Msg: fmt.Sprintf("%s: Step at %06x (opcode %02x %s, M=%d X=%d E=%d D=%04x) reported %d cycles", cpu.Kind(), r.PCL(), opc, decodeTable[opc].Mn[0], r.M, r.X, r.E, r.RD, cyc)}
				}
				total += uint64(cyc)
				if ra.AllCycles != r.AllCycles+uint64(cyc) {
					return &sim.Violation{Oracle: "allcycles_accounting", Step: i, Msg: fmt.Sprintf("%s: Step at %06x (opcode %02x) reported %d cycles but AllCycles went %d -> %d", cpu.Kind(), r.PCL(), opc, cyc, r.AllCycles, ra.AllCycles)}
				}
				if opc == 0xDB {
					stopped = true
					st.Fault("stp")
				}
				if opc == 0x42 {
					wdmWant = append(wdmWant, opd)
				}
				if flag != stopped {
					return &sim.Violation{Oracle: "stop_flag", Step: i, Msg: fmt.Sprintf("%s: Step at %06x (opcode %02x) reported stop=%v; STP executed since the last Reset: %v", cpu.Kind(), r.PCL(), opc, flag, stopped)}
				}
				if ra.Stopped != stopped {
					return &sim.Violation{Oracle: "stop_flag", Step: i, Msg: fmt.Sprintf("%s: Stopped field %v after opcode %02x; STP executed since the last Reset: %v", cpu.Kind(), ra.Stopped, opc, stopped)}
				}
				st.ProbeIf(stopped && opc != 0xDB, "step_while_stopped")
				if forked != nil && !switched {
					// from the next Step on the snapshot is the CPU in use: it stands at the hooked
					// address, before the instruction that has just run on the original (so an STP
					// that instruction may have been has not happened to it)
					cpu, switched = forked, true
					stopped = stoppedBefore
				}
			}
		}
		env.OpDone()
	}
	if sc.C("wdm") != 0 && string(wdmWant) != string(wdmArgs) {
		return &sim.Violation{Oracle: "onwdm", Step: -1, Msg: fmt.Sprintf("%s: OnWDM received % x; WDM operands executed % x", cpu.Kind(), wdmArgs, wdmWant)}
	}
	st.ProbeIf(len(wdmWant) > 0 && sc.C("wdm") != 0, "onwdm_fired")
	if sc.C("kind") == 2 && !hasIRQ {
		if len(pcEvents) != visits {
			return &sim.Violation{Oracle: "onpc_count", Step: -1, Msg: fmt.Sprintf("callback at %06x ran %d times; %d steps started there", cbAddr, len(pcEvents), visits)}
		}
		for _, ev := range pcEvents {
			if ev.reads != 0 {
				return &sim.Violation{Oracle: "onpc_after_fetch", Step: -1, Msg: fmt.Sprintf("callback at %06x ran after %d bus read(s) of its step: not before the instruction fetch", cbAddr, ev.reads)}
			}
		}
		st.ProbeIf(visits > 0, "onpc_fired")
	}
	st.State(cpu.Regs().Hash())
	return nil
}

// c12sweep: one Step of one opcode under every M x X x E x DL x page-cross x branch-outcome
// combination on both interpreters.
func c12sweep(sc *sim.Scenario, env *sim.Env) *sim.Violation {
	st := env.Stats
	env.SetWatchdog(200000000)
	op := byte(sc.C("opcode"))
	st.MarkNontrivial()
	minCyc := 255
	for kind := 0; kind < 2; kind++ {
		for combo := 0; combo < 64; combo++ {
			m, x, e := byte(combo&1), byte(combo>>1&1), byte(combo>>2&1)
			dl, cross, br := combo>>3&1, combo>>4&1, combo>>5&1
			if e == 1 && (m == 0 || x == 0) {
				continue
			}
			mem := NewSimMem(env, 0, uint64(sc.C("fillseed"))+uint64(combo))
			mem.NoLog = true
			mem.Mask = 0x80
			o1 := byte(sc.C("o1"))
			if cross == 1 {
				o1 = 0xFF // low operand byte $FF: indexing by >= 1 crosses a page
			}
			ins := []byte{op, o1, byte(sc.C("o2")), byte(sc.C("o3"))}
			if decodeTable[op].Mode == mRel8 && cross == 1 {
				ins[1] = 0x7F
			}
			for k, b := range ins {
				mem.Poke(0x0080FD+uint32(k), b) // the instruction itself straddles a page
			}
			var mc *Machine
			if kind == 0 {
				mc = NewBusMachine(env, 0, mem)
			} else {
				mc = NewAltMachine(env, 0, mem, 0, 0)
			}
			cpu := mc.CPU
			r := Regs{PC: 0x80FD, RK: 0, SP: 0x01F0, M: m, X: x, E: e, RDBR: 0x01}
			if dl == 1 {
				r.RD = 0x0001
			}
			a := uint16(sc.C("a"))
			r.RA, r.RAl, r.RAh = a, byte(a), byte(a>>8)
			xv, yv := uint16(sc.C("x")), uint16(sc.C("y"))
			if cross == 1 {
				xv |= 1
				yv |= 1
			}
			if x == 1 {
				xv &= 0xFF
				yv &= 0xFF
			}
			r.RX, r.RXl, r.RY, r.RYl = xv, byte(xv), yv, byte(yv)
			if br == 1 {
				r.N, r.V, r.Z, r.C = 1, 1, 1, 1
			}
			cpu.SetRegs(r)
			var cyc int
			p, pv := sim.RecoverLib(func() { cyc, _ = cpu.Step() })
			if p {
				_ = pv
				st.Abort("sweep_step_panic")
				continue
			}
			st.SimCycles += uint64(cyc)
			st.SimOps++
			env.ObsInt(cyc)
			if cyc < minCyc {
				minCyc = cyc
			}
			if cyc < 1 {
				return &sim.Violation{Oracle: "step_cycles_lt_1", Step: combo, Msg: fmt.Sprintf("%s: opcode %02x (%s) M=%d X=%d E=%d DL=%d cross=%d branch=%d reported %d cycles", cpu.Kind(), op, decodeTable[op].Mn[0], m, x, e, dl, cross, br, cyc)}
			}
			if got := cpu.Regs().AllCycles; got != uint64(cyc) {
				return &sim.Violation{Oracle: "allcycles_accounting", Step: combo, Msg: fmt.Sprintf("%s: opcode %02x reported %d cycles, AllCycles=%d", cpu.Kind(), op, cyc, got)}
			}
			st.State(sim.HashU64(uint64(op)<<8|uint64(combo), uint64(kind)))
		}
	}
	st.Probe(fmt.Sprintf("sweep_min_cycles_%d", minCyc))
	return nil
}
