package worlds

import (
	"fmt"
	"regexp"
	"strconv"
	"strings"
)

// Independent 65C816 decode table (DESIGN §4 C14), written from the WDC opcode matrix, not
// from the library's tables: mnemonic(s), addressing mode, and from the mode the instruction
// length as a function of M/X and the standard operand rendering.

type dmode int

const (
	mImp dmode = iota
	mAcc
	mImm8  // #$dd
	mImmM  // #$dd / #$hhll by M
	mImmX  // #$dd / #$hhll by X
	mImm16 // PEA
	mDp    // $dd
	mDpX   // $dd,x
	mDpY   // $dd,y
	mIdp   // ($dd)
	mIdpX  // ($dd,x)
	mIdpY  // ($dd),y
	mIldp  // [$dd]
	mIldpY // [$dd],y
	mAbs   // $hhll
	mAbsX
	mAbsY
	mLong  // $bbhhll
	mLongX // $bbhhll,x
	mIabs  // ($hhll)
	mIabsX // ($hhll,x)
	mIlabs // [$hhll]
	mRel8
	mRel16
	mSr   // $dd,s
	mIsrY // ($dd,s),y
	mBlk  // src,dst
	mBrk  // BRK: one opcode byte plus a signature byte; disassemblers show either
	mPei  // PEI ($dd) — also written pei $dd
)

type dentry struct {
	Mn   []string
	Mode dmode
}

var decodeTable [256]dentry

const decodeSrc = `
00 brk brk|01 ora idpx|02 cop imm8|03 ora sr|04 tsb dp|05 ora dp|06 asl dp|07 ora ildp|08 php imp|09 ora immM|0a asl acc|0b phd imp|0c tsb abs|0d ora abs|0e asl abs|0f ora long
10 bpl rel8|11 ora idpy|12 ora idp|13 ora isry|14 trb dp|15 ora dpx|16 asl dpx|17 ora ildpy|18 clc imp|19 ora absy|1a inc/ina acc|1b tcs/tas imp|1c trb abs|1d ora absx|1e asl absx|1f ora longx
20 jsr abs|21 and idpx|22 jsl/jsr long|23 and sr|24 bit dp|25 and dp|26 rol dp|27 and ildp|28 plp imp|29 and immM|2a rol acc|2b pld imp|2c bit abs|2d and abs|2e rol abs|2f and long
30 bmi rel8|31 and idpy|32 and idp|33 and isry|34 bit dpx|35 and dpx|36 rol dpx|37 and ildpy|38 sec imp|39 and absy|3a dec/dea acc|3b tsc/tsa imp|3c bit absx|3d and absx|3e rol absx|3f and longx
40 rti imp|41 eor idpx|42 wdm imm8|43 eor sr|44 mvp blk|45 eor dp|46 lsr dp|47 eor ildp|48 pha imp|49 eor immM|4a lsr acc|4b phk imp|4c jmp abs|4d eor abs|4e lsr abs|4f eor long
50 bvc rel8|51 eor idpy|52 eor idp|53 eor isry|54 mvn blk|55 eor dpx|56 lsr dpx|57 eor ildpy|58 cli imp|59 eor absy|5a phy imp|5b tcd/tad imp|5c jml/jmp long|5d eor absx|5e lsr absx|5f eor longx
60 rts imp|61 adc idpx|62 per rel16|63 adc sr|64 stz dp|65 adc dp|66 ror dp|67 adc ildp|68 pla imp|69 adc immM|6a ror acc|6b rtl imp|6c jmp iabs|6d adc abs|6e ror abs|6f adc long
70 bvs rel8|71 adc idpy|72 adc idp|73 adc isry|74 stz dpx|75 adc dpx|76 ror dpx|77 adc ildpy|78 sei imp|79 adc absy|7a ply imp|7b tdc/tda imp|7c jmp iabsx|7d adc absx|7e ror absx|7f adc longx
80 bra rel8|81 sta idpx|82 brl rel16|83 sta sr|84 sty dp|85 sta dp|86 stx dp|87 sta ildp|88 dey imp|89 bit immM|8a txa imp|8b phb imp|8c sty abs|8d sta abs|8e stx abs|8f sta long
90 bcc/blt rel8|91 sta idpy|92 sta idp|93 sta isry|94 sty dpx|95 sta dpx|96 stx dpy|97 sta ildpy|98 tya imp|99 sta absy|9a txs imp|9b txy imp|9c stz abs|9d sta absx|9e stz absx|9f sta longx
a0 ldy immX|a1 lda idpx|a2 ldx immX|a3 lda sr|a4 ldy dp|a5 lda dp|a6 ldx dp|a7 lda ildp|a8 tay imp|a9 lda immM|aa tax imp|ab plb imp|ac ldy abs|ad lda abs|ae ldx abs|af lda long
b0 bcs/bge rel8|b1 lda idpy|b2 lda idp|b3 lda isry|b4 ldy dpx|b5 lda dpx|b6 ldx dpy|b7 lda ildpy|b8 clv imp|b9 lda absy|ba tsx imp|bb tyx imp|bc ldy absx|bd lda absx|be ldx absy|bf lda longx
c0 cpy immX|c1 cmp idpx|c2 rep imm8|c3 cmp sr|c4 cpy dp|c5 cmp dp|c6 dec dp|c7 cmp ildp|c8 iny imp|c9 cmp immM|ca dex imp|cb wai imp|cc cpy abs|cd cmp abs|ce dec abs|cf cmp long
d0 bne rel8|d1 cmp idpy|d2 cmp idp|d3 cmp isry|d4 pei pei|d5 cmp dpx|d6 dec dpx|d7 cmp ildpy|d8 cld imp|d9 cmp absy|da phx imp|db stp imp|dc jml/jmp ilabs|dd cmp absx|de dec absx|df cmp longx
e0 cpx immX|e1 sbc idpx|e2 sep imm8|e3 sbc sr|e4 cpx dp|e5 sbc dp|e6 inc dp|e7 sbc ildp|e8 inx imp|e9 sbc immM|ea nop imp|eb xba/swa imp|ec cpx abs|ed sbc abs|ee inc abs|ef sbc long
f0 beq rel8|f1 sbc idpy|f2 sbc idp|f3 sbc isry|f4 pea imm16|f5 sbc dpx|f6 inc dpx|f7 sbc ildpy|f8 sed imp|f9 sbc absy|fa plx imp|fb xce imp|fc jsr iabsx|fd sbc absx|fe inc absx|ff sbc longx
`

var modeNames = map[string]dmode{
	"imp": mImp, "acc": mAcc, "imm8": mImm8, "immM": mImmM, "immX": mImmX, "imm16": mImm16, "dp": mDp, "dpx": mDpX,
	"dpy": mDpY, "idp": mIdp, "idpx": mIdpX, "idpy": mIdpY, "ildp": mIldp, "ildpy": mIldpY, "abs": mAbs, "absx": mAbsX,
	"absy": mAbsY, "long": mLong, "longx": mLongX, "iabs": mIabs, "iabsx": mIabsX, "ilabs": mIlabs, "rel8": mRel8,
	"rel16": mRel16, "sr": mSr, "isry": mIsrY, "blk": mBlk, "brk": mBrk, "pei": mPei,
}

func init() {
	n := 0
	for _, line := range strings.Split(strings.TrimSpace(decodeSrc), "\n") {
		for _, ent := range strings.Split(line, "|") {
			f := strings.Fields(ent)
			if len(f) != 3 {
				panic("decode table: bad entry " + ent)
			}
			op, err := strconv.ParseUint(f[0], 16, 8)
			if err != nil || int(op) != n {
				panic("decode table: out of order " + ent)
			}
			md, ok := modeNames[f[2]]
			if !ok {
				panic("decode table: mode " + f[2])
			}
			decodeTable[op] = dentry{Mn: strings.Split(f[1], "/"), Mode: md}
			n++
		}
	}
	if n != 256 {
		panic("decode table incomplete")
	}
}

// insLen returns the accepted instruction lengths for opcode op under flags m, x (1 = 8-bit).
func insLen(op byte, m, x byte) []int {
	switch decodeTable[op].Mode {
	case mImp, mAcc:
		return []int{1}
	case mBrk:
		return []int{1, 2}
	case mImm8, mDp, mDpX, mDpY, mIdp, mIdpX, mIdpY, mIldp, mIldpY, mRel8, mSr, mIsrY, mPei:
		return []int{2}
	case mImmM:
		if m == 1 {
			return []int{2}
		}
		return []int{3}
	case mImmX:
		if x == 1 {
			return []int{2}
		}
		return []int{3}
	case mImm16, mAbs, mAbsX, mAbsY, mIabs, mIabsX, mIlabs, mRel16, mBlk:
		return []int{3}
	case mLong, mLongX:
		return []int{4}
	}
	return []int{1}
}

// operandForms returns the accepted renderings (blanks removed, lower case) of the operand
// of an instruction whose bytes are b (full instruction), located at pc. For relative modes
// it returns nil and dest is the address the branch leads to.
func operandForms(b []byte, pc uint16) (forms []string, isRel bool, dest uint16) {
	op := b[0]
	get := func(i int) byte {
		if i < len(b) {
			return b[i]
		}
		return 0
	}
	d8 := fmt.Sprintf("$%02x", get(1))
	d16 := fmt.Sprintf("$%02x%02x", get(2), get(1))
	d24 := fmt.Sprintf("$%02x%02x%02x", get(3), get(2), get(1))
	switch decodeTable[op].Mode {
	case mImp:
		return []string{""}, false, 0
	case mAcc:
		return []string{"", "a"}, false, 0
	case mBrk:
		return []string{"", "#" + d8, d8}, false, 0
	case mImm8:
		return []string{"#" + d8}, false, 0
	case mImmM, mImmX:
		if len(b) == 3 {
			return []string{"#" + d16}, false, 0
		}
		return []string{"#" + d8}, false, 0
	case mImm16:
		return []string{"#" + d16, d16}, false, 0
	case mDp:
		return []string{d8}, false, 0
	case mPei:
		return []string{"(" + d8 + ")", d8}, false, 0
	case mDpX:
		return []string{d8 + ",x"}, false, 0
	case mDpY:
		return []string{d8 + ",y"}, false, 0
	case mIdp:
		return []string{"(" + d8 + ")"}, false, 0
	case mIdpX:
		return []string{"(" + d8 + ",x)"}, false, 0
	case mIdpY:
		return []string{"(" + d8 + "),y"}, false, 0
	case mIldp:
		return []string{"[" + d8 + "]"}, false, 0
	case mIldpY:
		return []string{"[" + d8 + "],y"}, false, 0
	case mAbs:
		return []string{d16}, false, 0
	case mAbsX:
		return []string{d16 + ",x"}, false, 0
	case mAbsY:
		return []string{d16 + ",y"}, false, 0
	case mLong:
		return []string{d24}, false, 0
	case mLongX:
		return []string{d24 + ",x"}, false, 0
	case mIabs:
		return []string{"(" + d16 + ")"}, false, 0
	case mIabsX:
		return []string{"(" + d16 + ",x)"}, false, 0
	case mIlabs:
		return []string{"[" + d16 + "]"}, false, 0
	case mSr:
		// ",sn" / "$(dd,sn),y" are the pinned tree's unambiguous spellings (DESIGN §4 C14)
		return []string{d8 + ",s", d8 + ",sn"}, false, 0
	case mIsrY:
		h := fmt.Sprintf("%02x", get(1))
		return []string{"($" + h + ",s),y", "($" + h + ",sn),y", "$(" + h + ",s),y", "$(" + h + ",sn),y"}, false, 0
	case mBlk:
		s, d := fmt.Sprintf("%02x", get(2)), fmt.Sprintf("%02x", get(1))
		return []string{"#$" + s + ",#$" + d, "$" + s + ",$" + d}, false, 0
	case mRel8:
		return nil, true, pc + 2 + uint16(int16(int8(get(1))))
	case mRel16:
		return nil, true, pc + 3 + (uint16(get(2))<<8 | uint16(get(1)))
	}
	return []string{""}, false, 0
}

// ---------------------------------------------------------------------------------------
// Trace line parser, tolerant of both interpreters' layouts.

type traceLine struct {
	Bank    byte
	Addr    uint16
	Bytes   []byte
	Mnem    string
	Operand string // as printed, blanks removed, lower case
	A, X, Y string
	S       string // stack pointer, if the layout shows it
	Flags   string
}

var (
	reLoc   = regexp.MustCompile(`([0-9a-fA-F]{2}):([0-9a-fA-F]{4})[|│]`)
	reRegs  = regexp.MustCompile(`A[=:]([^ \t|│]{2,6})[ \t]+X[=:]([^ \t|│]{2,6})[ \t]+Y[=:]([^ \t|│]{2,6})`)
	reFlags = regexp.MustCompile(`(?:^|[ |│\t])([nN-][vV-][mM1-][xXbB-][dD-][iI-][zZ-][cC-])(?:[ |│\t\n]|$)`)
	reHex4  = regexp.MustCompile(`[0-9a-f]{4}`)
	reSP    = regexp.MustCompile(`(?:^|[ \t|│])S[Pp]?[=:]([0-9a-fA-F]{4})(?:[ \t|│]|$)`)
)

func splitSep(s string) (string, string, bool) {
	i := strings.IndexAny(s, "|│")
	if i < 0 {
		return s, "", false
	}
	_, w := sepWidth(s[i:])
	return s[:i], s[i+w:], true
}

func sepWidth(s string) (rune, int) {
	if strings.HasPrefix(s, "│") {
		return '│', len("│")
	}
	return '|', 1
}

func parseTraceLine(line string) (*traceLine, error) { return parseTraceLineOpt(line, true) }

// parseTraceLineOpt: with needRegs false the register and flag fields are optional (cpualt's
// string-returning Disassemble shows only location, bytes, mnemonic and operand).
func parseTraceLineOpt(line string, needRegs bool) (*traceLine, error) {
	t := &traceLine{}
	loc := reLoc.FindStringSubmatchIndex(line)
	if loc == nil {
		return nil, fmt.Errorf("no bank:address field in %q", line)
	}
	bk, _ := strconv.ParseUint(line[loc[2]:loc[3]], 16, 8)
	ad, _ := strconv.ParseUint(line[loc[4]:loc[5]], 16, 16)
	t.Bank, t.Addr = byte(bk), uint16(ad)
	rest := line[loc[1]:]
	bytesField, rest, ok := splitSep(rest)
	if !ok {
		return nil, fmt.Errorf("no instruction-bytes field in %q", line)
	}
	for _, f := range strings.Fields(bytesField) {
		if len(f) != 2 {
			return nil, fmt.Errorf("bad byte token %q in %q", f, line)
		}
		v, err := strconv.ParseUint(f, 16, 8)
		if err != nil {
			return nil, fmt.Errorf("bad byte token %q in %q", f, line)
		}
		t.Bytes = append(t.Bytes, byte(v))
	}
	text, _, _ := splitSep(rest)
	text = strings.TrimRight(text, " \n")
	text = strings.TrimLeft(text, " ")
	mn := text
	opnd := ""
	if i := strings.IndexByte(text, ' '); i >= 0 {
		mn, opnd = text[:i], text[i+1:]
	}
	t.Mnem = strings.ToLower(mn)
	t.Operand = strings.ToLower(strings.Join(strings.Fields(opnd), ""))
	if m := reRegs.FindStringSubmatch(line); m != nil {
		t.A, t.X, t.Y = strings.ToLower(m[1]), strings.ToLower(m[2]), strings.ToLower(m[3])
	} else if needRegs {
		return nil, fmt.Errorf("no A= X= Y= fields in %q", line)
	}
	if m := reSP.FindStringSubmatch(line); m != nil {
		t.S = strings.ToLower(m[1])
	}
	if m := reFlags.FindStringSubmatch(line); m != nil {
		t.Flags = m[1]
	} else if needRegs {
		return nil, fmt.Errorf("no flag letters in %q", line)
	}
	return t, nil
}

// checkTraceLine compares a parsed line with the state world B recorded before the step.
func checkTraceLine(t *traceLine, r Regs, ins []byte) (oracle, msg string) {
	if t.Bank != r.RK || t.Addr != r.PC {
		return "trace_address", fmt.Sprintf("line shows %02x:%04x, the instruction about to execute is at %02x:%04x", t.Bank, t.Addr, r.RK, r.PC)
	}
	op := ins[0]
	lens := insLen(op, r.M, r.X)
	okLen := false
	for _, l := range lens {
		if len(t.Bytes) == l {
			okLen = true
		}
	}
	if !okLen {
		return "trace_length", fmt.Sprintf("opcode %02x (%s) with M=%d X=%d occupies %v byte(s); the line shows %d: % x", op, decodeTable[op].Mn[0], r.M, r.X, lens, len(t.Bytes), t.Bytes)
	}
	for i, b := range t.Bytes {
		if i < len(ins) && ins[i] != b {
			return "trace_bytes", fmt.Sprintf("byte %d of the instruction at %02x:%04x is %02x, the line shows %02x", i, r.RK, r.PC, ins[i], b)
		}
	}
	okMn := false
	for _, m := range decodeTable[op].Mn {
		if t.Mnem == m {
			okMn = true
		}
	}
	if !okMn {
		return "trace_mnemonic", fmt.Sprintf("opcode %02x is %v, the line shows %q", op, decodeTable[op].Mn, t.Mnem)
	}
	full := ins
	want := lens[len(lens)-1]
	if len(full) > want {
		full = full[:want]
	}
	forms, isRel, dest := operandForms(full, r.PC)
	if isRel {
		found := false
		ds := fmt.Sprintf("%04x", dest)
		for _, tok := range reHex4.FindAllString(strings.ReplaceAll(t.Operand, "$", " "), -1) {
			if tok == ds {
				found = true
			}
		}
		// tokens may be adjacent to other hex digits; accept an exact 4-digit token only
		if !found {
			return "trace_branch_dest", fmt.Sprintf("branch %02x at %02x:%04x with operand % x leads to $%04x; the line shows %q", op, r.RK, r.PC, full[1:], dest, t.Operand)
		}
	} else {
		ok := false
		for _, f := range forms {
			if t.Operand == f {
				ok = true
			}
		}
		if !ok {
			return "trace_operand", fmt.Sprintf("opcode %02x (%s) bytes % x: operand rendering %q is none of %q", op, decodeTable[op].Mn[0], full, t.Operand, forms)
		}
	}
	if t.A == "" && t.Flags == "" {
		return "", "" // a rendering without register fields
	}
	// registers: the width-appropriate copy
	chk := func(name, field string, is8 bool, v16 uint16, lo byte, hi byte) (string, string) {
		if is8 {
			if !strings.HasSuffix(field, fmt.Sprintf("%02x", lo)) {
				return "trace_register", fmt.Sprintf("%s is 8-bit and holds %02x; the line shows %q", name, lo, field)
			}
			pre := field[:len(field)-2]
			isHex := pre != "" && strings.Trim(pre, "0123456789abcdef") == ""
			if isHex && pre != fmt.Sprintf("%02x", hi) {
				// a filler ("--", "..", nothing) is fine; hex digits there must be the hidden byte
				return "trace_register", fmt.Sprintf("%s high part shown as %q (low byte %02x, hidden byte %02x)", name, pre, lo, hi)
			}
			return "", ""
		}
		if field != fmt.Sprintf("%04x", v16) {
			return "trace_register", fmt.Sprintf("%s is 16-bit and holds %04x; the line shows %q", name, v16, field)
		}
		return "", ""
	}
	if o, m := chk("A", t.A, r.M == 1, r.RA, r.RAl, r.RAh); o != "" {
		return o, m
	}
	if o, m := chk("X", t.X, r.X == 1, r.RX, r.RXl, byte(r.RX>>8)); o != "" {
		return o, m
	}
	if o, m := chk("Y", t.Y, r.X == 1, r.RY, r.RYl, byte(r.RY>>8)); o != "" {
		return o, m
	}
	if t.S != "" && t.S != fmt.Sprintf("%04x", r.SP) {
		return "trace_register", fmt.Sprintf("the stack pointer the instruction will see is %04x; the line shows S=%s", r.SP, t.S)
	}
	fl := []byte{r.N, r.V, r.M, r.X, r.D, r.I, r.Z, r.C}
	for i, f := range fl {
		if r.E == 1 && (i == 2 || i == 3) {
			continue // emulation mode: bits 5 and 4 are "1" and the break flag in 6502 notation; either rendering is fine
		}
		set := t.Flags[i] != '-'
		if set != (f != 0) {
			return "trace_flags", fmt.Sprintf("flags nvmxdizc = %v; the line shows %q", fl, t.Flags)
		}
	}
	return "", ""
}
