package worlds

import (
	"verif/sim"
)

// Program scenarios for the CPU worlds (C12, C14, C18 roles).
//
//	Cfg: kind 0 = emulator.System (cpu65c816 + LoROM map), 1 = bare cpualt on SimMem,
//	     2 = bare cpu65c816 on bus.Bus + SimMem
//	     pc (24-bit), a, x, y, sp, d, dbr, p (status byte), e, fillseed
//	Ops: "i" B = bytes of one instruction, laid out consecutively from pc.

var ctrlOpcodes = map[byte]bool{
	0x00: true, 0x02: true, 0x20: true, 0x22: true, 0x40: true, 0x4C: true, 0x5C: true, 0x60: true, 0x6B: true,
	0x6C: true, 0x7C: true, 0xDC: true, 0xFC: true, 0xDB: true, 0x82: true, 0x80: true,
	0x10: true, 0x30: true, 0x50: true, 0x70: true, 0x90: true, 0xB0: true, 0xD0: true, 0xF0: true,
	0x44: true, 0x54: true, 0xFB: true, 0x28: true, 0xAB: true, 0x2B: true, 0x5B: true, 0x1B: true, 0x9A: true,
}

func genInstr(r *sim.Rand, op byte, m, x byte) []byte {
	l := insLen(op, m, x)
	n := l[len(l)-1]
	b := make([]byte, n)
	b[0] = op
	for i := 1; i < n; i++ {
		b[i] = byte(r.Intn(256))
	}
	switch decodeTable[op].Mode {
	case mLong, mLongX:
		if r.Chance(7, 8) {
			b[3] &= 0x7F // keep long operands away from the top of the address space (C08)
		}
	case mRel8:
		if r.Chance(1, 2) {
			b[1] = byte(r.Range(-12, 12))
		}
	case mRel16:
		if r.Chance(3, 4) {
			v := uint16(int16(r.Range(-40, 40)))
			b[1], b[2] = byte(v), byte(v>>8)
		}
	case mBlk:
		b[1] &= 0x7F
		b[2] &= 0x7F
	}
	return b
}

// genProgram builds a program of roughly n instructions with constructed forward and
// backward branches, width switches, WDM and STP, tracking the M/X guess through REP/SEP.
func genProgram(r *sim.Rand, n int, p byte, e byte) []sim.Op {
	m, x := (p>>5)&1, (p>>4)&1
	if e == 1 {
		m, x = 1, 1
	}
	var ops []sim.Op
	emit := func(b []byte) { ops = append(ops, sim.Op{K: "i", B: b}) }
	simple := []byte{0xEA, 0xE8, 0xC8, 0x1A, 0x3A, 0x18, 0x38, 0xAA, 0xA8, 0x8A, 0x98, 0xEB, 0xB8, 0xD8, 0x0A, 0x4A}
	for len(ops) < n {
		switch c := r.Intn(100); {
		case c < 55: // random non-control instruction
			op := byte(r.Intn(256))
			if ctrlOpcodes[op] {
				continue
			}
			emit(genInstr(r, op, m, x))
		case c < 65: // any opcode
			op := byte(r.Intn(256))
			b := genInstr(r, op, m, x)
			emit(b)
		case c < 72: // width switch
			mask := byte(sim.PickInt(r, 0x10, 0x20, 0x30, 0x30, r.Intn(256)&0xF7)) // avoid decimal mode mostly
			if r.Chance(1, 2) {
				emit([]byte{0xC2, mask})
				if e == 0 {
					m &^= (mask >> 5) & 1
					x &^= (mask >> 4) & 1
				}
			} else {
				emit([]byte{0xE2, mask})
				m |= (mask >> 5) & 1
				x |= (mask >> 4) & 1
			}
		case c < 80: // counted loop with a backward branch: LDX #k; body; DEX; BNE back
			k := byte(r.Range(1, 4))
			if x == 1 {
				emit([]byte{0xA2, k})
			} else {
				emit([]byte{0xA2, k, 0x00})
			}
			body := r.Intn(3)
			blen := 0
			for i := 0; i < body; i++ {
				emit([]byte{simple[r.Intn(len(simple)-2)]}) // not asl/lsr to keep it simple
				blen++
			}
			emit([]byte{0xCA})
			emit([]byte{0xD0, byte(int8(-(blen + 3)))})
		case c < 86: // forward branch over a few bytes
			k := r.Range(0, 4)
			bop := byte(sim.PickInt(r, 0x80, 0x80, 0x10, 0x30, 0x50, 0x70, 0x90, 0xB0, 0xD0, 0xF0))
			if r.Chance(1, 5) {
				// a displacement at the edge of the signed range (the longest backward and forward
				// branches); wherever it leads, all passes follow alike
				emit([]byte{bop, byte(sim.PickInt(r, 0x80, 0x80, 0x7F, 0x81, 0xFF, 0xFE))})
				continue
			}
			emit([]byte{bop, byte(k)})
			for i := 0; i < k; i++ {
				emit([]byte{simple[r.Intn(len(simple))]})
			}
		case c < 89: // BRL forward / backward over simple instructions
			if r.Chance(1, 2) {
				k := r.Range(0, 3)
				emit([]byte{0x82, byte(k), 0})
				for i := 0; i < k; i++ {
					emit([]byte{simple[r.Intn(len(simple))]})
				}
			} else {
				// bra +3 ; (target:) nop ; bra +3 ; brl target  — a backward BRL that terminates
				emit([]byte{0x80, 0x03})
				emit([]byte{0xEA})
				emit([]byte{0x80, 0x03})
				v := uint16(0x10000 - 6)
				emit([]byte{0x82, byte(v), byte(v >> 8)})
			}
		case c < 93: // WDM
			emit([]byte{0x42, byte(r.Intn(256))})
		case c < 95: // STP
			emit([]byte{0xDB})
		case c < 97: // PER / PEA / PEI
			emit(genInstr(r, byte(sim.PickInt(r, 0x62, 0xF4, 0xD4)), m, x))
		default:
			emit([]byte{simple[r.Intn(len(simple))]})
		}
	}
	return ops
}

var sysStartAddrs = []int64{0x008000, 0x008000, 0x7E2000, 0x000100, 0x700000, 0x01FFF0, 0x001FF8, 0x7F8000, 0x808000, 0x00FFE0}

func genStartState(r *sim.Rand, cfg map[string]int64, kind int) {
	p := int64(r.Intn(256)) &^ 0x08 // decimal mode rarely
	if r.Chance(1, 10) {
		p |= 0x08
	}
	switch r.Intn(4) {
	case 0:
		p |= 0x30
	case 1:
		p &^= 0x30
	}
	e := int64(0)
	if r.Chance(1, 8) {
		e = 1
		p |= 0x30
	}
	cfg["p"], cfg["e"] = p, e
	cfg["a"] = int64(r.Intn(0x10000))
	cfg["x"] = int64(r.Intn(0x10000))
	cfg["y"] = int64(r.Intn(0x10000))
	if r.Chance(1, 2) {
		cfg["x"] = int64(r.Intn(0x200))
		cfg["y"] = int64(r.Intn(0x200))
	}
	cfg["sp"] = int64(sim.PickInt(r, 0x01FF, 0x01FF, 0x1FF0, 0x0100, r.Intn(0x2000)))
	if e == 1 {
		cfg["sp"] = 0x0100 | cfg["sp"]&0xFF
	}
	cfg["d"] = int64(sim.PickInt(r, 0, 0, 0x0001, 0x00FF, 0x1F00, 0x1234, r.Intn(0x2000)))
	cfg["dbr"] = int64(sim.PickInt(r, 0, 0, 0x7E, 0x7F, 0x01, r.Intn(0x80)))
	if kind == 0 {
		cfg["pc"] = sysStartAddrs[r.Intn(len(sysStartAddrs))]
	} else {
		cfg["pc"] = int64(r.Intn(0x80))<<16 | int64(sim.PickInt(r, 0x8000, 0x0200, 0xFFF0, 0x00F8, r.Intn(0x10000)))
	}
	cfg["fillseed"] = int64(r.Intn(1<<30) + 1)
}

func startRegs(sc *sim.Scenario) Regs {
	p := byte(sc.C("p"))
	e := byte(sc.C("e") & 1)
	a, x, y := uint16(sc.C("a")), uint16(sc.C("x")), uint16(sc.C("y"))
	r := Regs{
		PC: uint16(sc.C("pc")), RK: byte(sc.C("pc") >> 16), SP: uint16(sc.C("sp")), RD: uint16(sc.C("d")), RDBR: byte(sc.C("dbr")),
		N: p >> 7 & 1, V: p >> 6 & 1, M: p >> 5 & 1, X: p >> 4 & 1, D: p >> 3 & 1, I: p >> 2 & 1, Z: p >> 1 & 1, C: p & 1, E: e,
	}
	if e == 1 {
		r.M, r.X = 1, 1
		r.SP = 0x0100 | r.SP&0xFF
	}
	r.RA, r.RAl, r.RAh = a, byte(a), byte(a>>8)
	if r.X == 1 {
		x &= 0xFF
		y &= 0xFF
	}
	r.RX, r.RXl, r.RY, r.RYl = x, byte(x), y, byte(y)
	return r
}

func programBytes(sc *sim.Scenario) []byte {
	var b []byte
	for _, op := range sc.Ops {
		if op.K == "i" {
			b = append(b, op.B...)
		}
	}
	return b
}

// loadSystem fills a System's memory from the scenario and places the program.
func loadSystem(sm *SysMachine, sc *sim.Scenario) {
	s := sm.S
	if fs := sc.C("fillseed"); fs != 0 {
		r := sim.NewRand(uint64(fs))
		fill := func(b []byte) {
			for i := 0; i+8 <= len(b); i += 8 {
				v := r.U64()
				b[i], b[i+1], b[i+2], b[i+3] = byte(v), byte(v>>8), byte(v>>16), byte(v>>24)
				b[i+4], b[i+5], b[i+6], b[i+7] = byte(v>>32), byte(v>>40), byte(v>>48), byte(v>>56)
			}
		}
		fill(s.WRAM[:])
		fill(s.SRAM[:])
		fill(s.ROM[:0x10000])
	}
	addr := uint32(sc.C("pc")) & 0xFFFFFF
	for _, b := range programBytes(sc) {
		bank := addr & 0xFF0000
		sim.RecoverLib(func() { s.Bus.EaWrite(addr, b) })
		addr = bank | (addr+1)&0xFFFF
	}
	cpuA{&s.CPU}.SetRegs(startRegs(sc))
}

func loadSimMem(mem *SimMem, sc *sim.Scenario) {
	addr := uint32(sc.C("pc")) & 0xFFFFFF
	for _, b := range programBytes(sc) {
		bank := addr & 0xFF0000
		mem.Poke(addr, b)
		addr = bank | (addr+1)&0xFFFF
	}
}

// peekSys reads a byte through the System's bus for the harness's own bookkeeping.
func peekSys(sm *SysMachine, addr uint32) byte {
	var v byte
	sim.RecoverLib(func() { v = sm.S.Bus.EaRead(addr & 0xFFFFFF) })
	return v
}

// sysMemDigest hashes everything a program can have written in a System.
func sysMemDigest(sm *SysMachine) uint64 {
	s := sm.S
	h := sim.HashBytes(0, s.WRAM[:])
	h = sim.HashBytes(h, s.SRAM[:])
	h = sim.HashBytes(h, s.ROM[:0x200000])
	for a := uint32(0x2000); a < 0x8000; a++ {
		h = sim.HashU64(h, uint64(peekSys(sm, a)))
	}
	return hashStore(h, sm.Hole)
}

func hashStore(h uint64, m *SimMem) uint64 {
	if m == nil {
		return h
	}
	// order-independent combination of the sparse store
	var acc uint64
	for a, v := range m.Store {
		if v != m.Fill(a) {
			acc += sim.Mix(uint64(a)<<8 | uint64(v))
		}
	}
	return sim.HashU64(h, acc)
}
