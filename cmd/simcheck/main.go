// simcheck runs one property's check: `simcheck <Cxx> quick|thorough`, `simcheck replay <Cxx> <file>`.
package main

import (
	"fmt"
	"os"
	"strconv"

	"verif/sim"
	_ "verif/worlds"
)

func usage() int {
	fmt.Fprintln(os.Stderr, "usage: simcheck <Cxx> quick|thorough | simcheck replay <Cxx> <file> | simcheck worker ... | simcheck selftest ...")
	return 2
}

func main() {
	a := os.Args[1:]
	if len(a) < 2 {
		os.Exit(usage())
	}
	switch a[0] {
	case "worker":
		if len(a) != 8 {
			os.Exit(usage())
		}
		i, _ := strconv.Atoi(a[3])
		n, _ := strconv.Atoi(a[4])
		dl, _ := strconv.ParseInt(a[6], 10, 64)
		mr, _ := strconv.ParseUint(a[7], 10, 64)
		os.Exit(sim.WorkerMain(a[1], a[2], i, n, a[5], dl, mr))
	case "replay":
		if len(a) != 3 {
			os.Exit(usage())
		}
		os.Exit(sim.ReplayMain(a[1], a[2], false))
	case "show":
		// print the scenario of one run (pure function of VERIF_SEED, property, run index)
		if len(a) != 4 {
			os.Exit(usage())
		}
		n, _ := strconv.ParseUint(a[3], 10, 64)
		os.Exit(sim.ShowMain(a[1], a[2], n))
	case "eventlog":
		// determinism self-test support: print one line per run for runs [0,n)
		if len(a) != 4 {
			os.Exit(usage())
		}
		n, _ := strconv.ParseUint(a[3], 10, 64)
		os.Setenv("SIM_EVENTLOG", "1")
		os.Exit(sim.WorkerMain(a[1], a[2], 0, 1, os.DevNull, 1<<40, n))
	}
	if a[1] != "quick" && a[1] != "thorough" {
		os.Exit(usage())
	}
	os.Exit(sim.CheckMain(a[0], a[1]))
}
