// instrument applies the three source-to-source passes of DESIGN.md §3.2 to a scratch
// copy of alttpo/snes (never to /repo itself):
//
//	P-yield    zzsimrt.Y(site) at the top of every function body and loop body
//	P-maporder `for k, v := range m` over a map -> iteration over zzsimrt.Keys(m)
//	P-globals  zz_simglobals.go per package registering every package-level var
//
// usage: instrument <module-dir>      (cwd must be inside the module)
// exit 0 ok, exit 2 on any failure (never 1: this is not a verdict).
package main

import (
	"bytes"
	"fmt"
	"go/ast"
	"go/format"
	"go/importer"
	"go/parser"
	"go/token"
	"go/types"
	"os"
	"path/filepath"
	"sort"
	"strings"
)

const modPath = "github.com/alttpo/snes"
const rtPath = modPath + "/zzsimrt"

var sites []string

func die(format string, a ...interface{}) {
	fmt.Fprintf(os.Stderr, "instrument: "+format+"\n", a...)
	os.Exit(2)
}

func main() {
	if len(os.Args) != 2 {
		die("usage: instrument <module-dir>")
	}
	root, err := filepath.Abs(os.Args[1])
	if err != nil {
		die("%v", err)
	}
	if err := os.Chdir(root); err != nil {
		die("%v", err)
	}

	// collect package directories (non-test go files)
	var dirs []string
	err = filepath.Walk(root, func(p string, info os.FileInfo, err error) error {
		if err != nil {
			return err
		}
		if info.IsDir() {
			name := info.Name()
			if p != root && (strings.HasPrefix(name, ".") || name == "testdata" || name == "zzsimrt") {
				return filepath.SkipDir
			}
			return nil
		}
		if strings.HasSuffix(p, "_test.go") {
			// test files are not part of the library under simulation
			return os.Remove(p)
		}
		if strings.HasSuffix(p, ".go") {
			d := filepath.Dir(p)
			if len(dirs) == 0 || dirs[len(dirs)-1] != d {
				dirs = append(dirs, d)
			}
		}
		return nil
	})
	if err != nil {
		die("walk: %v", err)
	}
	sort.Strings(dirs)
	dirs = uniq(dirs)

	fset := token.NewFileSet()
	imp := importer.ForCompiler(fset, "source", nil)

	nMap, nGlobals := 0, 0
	for _, d := range dirs {
		rel, _ := filepath.Rel(root, d)
		ipath := modPath
		if rel != "." {
			ipath = modPath + "/" + filepath.ToSlash(rel)
		}
		pkgs, err := parser.ParseDir(fset, d, func(fi os.FileInfo) bool {
			return !strings.HasSuffix(fi.Name(), "_test.go") && fi.Name() != "zz_simglobals.go"
		}, parser.ParseComments)
		if err != nil {
			die("parse %s: %v", d, err)
		}
		for pname, pkg := range pkgs {
			if pname == "main" {
				continue
			}
			var files []*ast.File
			var names []string
			for fn := range pkg.Files {
				names = append(names, fn)
			}
			sort.Strings(names)
			for _, fn := range names {
				files = append(files, pkg.Files[fn])
			}
			info := &types.Info{Types: map[ast.Expr]types.TypeAndValue{}, Uses: map[*ast.Ident]types.Object{}}
			conf := types.Config{Importer: imp, Error: func(error) {}}
			_, _ = conf.Check(ipath, fset, files, info) // partial info is enough

			var globals []string
			for i, f := range files {
				nMap += rewriteMapRanges(f, info)
				insertYields(fset, f, rel)
				rewriteGoStmts(f, info)
				rewriteClockAndExit(f, info)
				for _, decl := range f.Decls {
					gd, ok := decl.(*ast.GenDecl)
					if !ok || gd.Tok != token.VAR {
						continue
					}
					for _, sp := range gd.Specs {
						for _, id := range sp.(*ast.ValueSpec).Names {
							if id.Name != "_" {
								globals = append(globals, id.Name)
							}
						}
					}
				}
				addImport(f, rtPath)
				var buf bytes.Buffer
				if err := format.Node(&buf, fset, f); err != nil {
					die("format %s: %v", names[i], err)
				}
				if err := os.WriteFile(names[i], buf.Bytes(), 0o644); err != nil {
					die("write: %v", err)
				}
			}
			// P-globals
			var g bytes.Buffer
			fmt.Fprintf(&g, "package %s\n\nimport \"%s\"\n\nfunc init() {\n", pname, rtPath)
			for _, name := range globals {
				fmt.Fprintf(&g, "\tzzsimrt.RegisterGlobal(%q, &%s)\n", ipath+"."+name, name)
				nGlobals++
			}
			fmt.Fprintf(&g, "}\n\nvar _ = zzsimrt.Y\n")
			if err := os.WriteFile(filepath.Join(d, "zz_simglobals.go"), g.Bytes(), 0o644); err != nil {
				die("write: %v", err)
			}
		}
	}

	// runtime package
	if err := os.MkdirAll(filepath.Join(root, "zzsimrt"), 0o755); err != nil {
		die("%v", err)
	}
	var sb bytes.Buffer
	sb.WriteString(rtSource)
	sb.WriteString("\nvar Sites = []string{\n")
	for _, s := range sites {
		fmt.Fprintf(&sb, "\t%q,\n", s)
	}
	sb.WriteString("}\n")
	if err := os.WriteFile(filepath.Join(root, "zzsimrt", "rt.go"), sb.Bytes(), 0o644); err != nil {
		die("%v", err)
	}

	// go.mod: generics need >= 1.18; 1.21 for cmp/slices; loop-var semantics unchanged < 1.22
	gm, err := os.ReadFile(filepath.Join(root, "go.mod"))
	if err != nil {
		die("%v", err)
	}
	lines := strings.Split(string(gm), "\n")
	for i, l := range lines {
		if strings.HasPrefix(strings.TrimSpace(l), "go ") {
			lines[i] = "go 1.21"
		}
	}
	if err := os.WriteFile(filepath.Join(root, "go.mod"), []byte(strings.Join(lines, "\n")), 0o644); err != nil {
		die("%v", err)
	}
	fmt.Printf("instrument: %d yield sites, %d map ranges rewritten, %d globals registered\n", len(sites), nMap, nGlobals)
	fmt.Printf("instrument: gostmts=%d\n", nGoStmts)
	fmt.Printf("instrument: clock calls rewritten=%d, exit calls rewritten=%d\n", nClockCalls, nExitCalls)
}

func uniq(s []string) []string {
	var out []string
	for i, v := range s {
		if i == 0 || v != s[i-1] {
			out = append(out, v)
		}
	}
	return out
}

func addImport(f *ast.File, path string) {
	for _, im := range f.Imports {
		if im.Path.Value == `"`+path+`"` {
			return
		}
	}
	spec := &ast.ImportSpec{Path: &ast.BasicLit{Kind: token.STRING, Value: `"` + path + `"`}}
	decl := &ast.GenDecl{Tok: token.IMPORT, Specs: []ast.Spec{spec}}
	f.Decls = append([]ast.Decl{decl}, f.Decls...)
	f.Imports = append(f.Imports, spec)
	// keep the import used in files without any site: var _ = zzsimrt.Y
	f.Decls = append(f.Decls, &ast.GenDecl{Tok: token.VAR, Specs: []ast.Spec{&ast.ValueSpec{
		Names:  []*ast.Ident{ast.NewIdent("_")},
		Values: []ast.Expr{&ast.SelectorExpr{X: ast.NewIdent("zzsimrt"), Sel: ast.NewIdent("Y")}},
	}}})
}

func yieldStmt(fset *token.FileSet, rel string, pos token.Pos, kind string) ast.Stmt {
	p := fset.Position(pos)
	id := len(sites)
	sites = append(sites, fmt.Sprintf("%s:%s/%s:%d", kind, rel, filepath.Base(p.Filename), p.Line))
	return &ast.ExprStmt{X: &ast.CallExpr{
		Fun:  &ast.SelectorExpr{X: ast.NewIdent("zzsimrt"), Sel: ast.NewIdent("Y")},
		Args: []ast.Expr{&ast.BasicLit{Kind: token.INT, Value: fmt.Sprint(id)}},
	}}
}

var nGoStmts int
var nClockCalls, nExitCalls int

// rewriteClockAndExit (P-time, P-exit): the wall clock and process termination are seams too.
// time.Now/Since/Until/Sleep become zzsimrt.Now/Since/Until/Sleep (the simulated clock while a
// simulation runs); os.Exit and log.Fatal* become zzsimrt.Exit/Fatal* (recorded, then unwound
// as a panic, instead of ending the worker process and every instance in it).
func rewriteClockAndExit(f *ast.File, info *types.Info) {
	keep := map[string]string{} // local package name -> a member to keep the import used
	ast.Inspect(f, func(n ast.Node) bool {
		call, ok := n.(*ast.CallExpr)
		if !ok {
			return true
		}
		sel, ok := call.Fun.(*ast.SelectorExpr)
		if !ok {
			return true
		}
		id, ok := sel.X.(*ast.Ident)
		if !ok {
			return true
		}
		pn, ok := info.Uses[id].(*types.PkgName)
		if !ok {
			return true
		}
		to := ""
		switch pn.Imported().Path() + "." + sel.Sel.Name {
		case "time.Now", "time.Since", "time.Until", "time.Sleep":
			to = sel.Sel.Name
			keep[id.Name] = "Now"
			nClockCalls++
		case "os.Exit":
			to = "Exit"
			keep[id.Name] = "Exit"
			nExitCalls++
		case "log.Fatal", "log.Fatalf", "log.Fatalln":
			to = sel.Sel.Name
			keep[id.Name] = "Fatal"
			nExitCalls++
		}
		if to != "" {
			call.Fun = &ast.SelectorExpr{X: ast.NewIdent("zzsimrt"), Sel: ast.NewIdent(to)}
		}
		return true
	})
	for pkg, member := range keep {
		f.Decls = append(f.Decls, &ast.GenDecl{Tok: token.VAR, Specs: []ast.Spec{&ast.ValueSpec{
			Names:  []*ast.Ident{ast.NewIdent("_")},
			Values: []ast.Expr{&ast.SelectorExpr{X: ast.NewIdent(pkg), Sel: ast.NewIdent(member)}},
		}}})
	}
}

// rewriteGoStmts (P-go): `go f(a, b)` becomes
//
//	go zzsimrt.Go(func() func() { zzf, zza0, zza1 := f, a, b; return func() { zzf(zza0, zza1) } }())
//
// The function value and the arguments are still evaluated by the goroutine that executes the
// go statement (the outer literal runs there); the new goroutine announces itself to the
// simulation runtime, which keeps it out of the scheduler: a goroutine the library starts is
// not a party of the simulation, it runs under the Go runtime's own scheduling. Constant
// arguments are not hoisted (an untyped constant must keep converting to the parameter type).
// Runs after insertYields, so the wrapper literals carry no yield of their own.
func rewriteGoStmts(f *ast.File, info *types.Info) {
	ast.Inspect(f, func(n ast.Node) bool {
		g, ok := n.(*ast.GoStmt)
		if !ok {
			return true
		}
		call := g.Call
		if tv, ok := info.Types[call.Fun]; ok && (tv.IsBuiltin() || tv.IsType()) {
			return true
		}
		var lhs, rhs []ast.Expr
		lhs = append(lhs, ast.NewIdent("zzf"))
		rhs = append(rhs, call.Fun)
		var args []ast.Expr
		for i, a := range call.Args {
			if tv, ok := info.Types[a]; ok && (tv.Value != nil || tv.IsNil()) {
				args = append(args, a)
				continue
			}
			if _, isLit := a.(*ast.BasicLit); isLit {
				args = append(args, a)
				continue
			}
			id := ast.NewIdent(fmt.Sprintf("zza%d", i))
			lhs = append(lhs, id)
			rhs = append(rhs, a)
			args = append(args, ast.NewIdent(id.Name))
		}
		inner := &ast.FuncLit{
			Type: &ast.FuncType{Params: &ast.FieldList{}},
			Body: &ast.BlockStmt{List: []ast.Stmt{&ast.ExprStmt{X: &ast.CallExpr{Fun: ast.NewIdent("zzf"), Args: args, Ellipsis: call.Ellipsis}}}},
		}
		outer := &ast.FuncLit{
			Type: &ast.FuncType{Params: &ast.FieldList{}, Results: &ast.FieldList{List: []*ast.Field{{Type: &ast.FuncType{Params: &ast.FieldList{}}}}}},
			Body: &ast.BlockStmt{List: []ast.Stmt{
				&ast.AssignStmt{Lhs: lhs, Tok: token.DEFINE, Rhs: rhs},
				&ast.ReturnStmt{Results: []ast.Expr{inner}},
			}},
		}
		g.Call = &ast.CallExpr{
			Fun:  &ast.SelectorExpr{X: ast.NewIdent("zzsimrt"), Sel: ast.NewIdent("Go")},
			Args: []ast.Expr{&ast.CallExpr{Fun: outer}},
		}
		return true // go statements nested in the launched function literal are rewritten too
	})
}

func insertYields(fset *token.FileSet, f *ast.File, rel string) {
	ast.Inspect(f, func(n ast.Node) bool {
		switch x := n.(type) {
		case *ast.FuncDecl:
			if x.Body != nil {
				x.Body.List = append([]ast.Stmt{yieldStmt(fset, rel, x.Pos(), "fn")}, x.Body.List...)
			}
		case *ast.FuncLit:
			x.Body.List = append([]ast.Stmt{yieldStmt(fset, rel, x.Pos(), "fn")}, x.Body.List...)
		case *ast.GoStmt:
			// a goroutine of the library's own: the simulator does not schedule it (DESIGN §9.7)
			nGoStmts++
		case *ast.ForStmt:
			x.Body.List = append([]ast.Stmt{yieldStmt(fset, rel, x.Pos(), "loop")}, x.Body.List...)
		case *ast.RangeStmt:
			// a P-maporder prologue (declares v, skips deleted keys) may follow the yield
			x.Body.List = append([]ast.Stmt{yieldStmt(fset, rel, x.Pos(), "loop")}, x.Body.List...)
		}
		return true
	})
}

func pure(e ast.Expr) bool {
	switch x := e.(type) {
	case *ast.Ident:
		return true
	case *ast.SelectorExpr:
		return pure(x.X)
	case *ast.ParenExpr:
		return pure(x.X)
	}
	return false
}

func rewriteMapRanges(f *ast.File, info *types.Info) int {
	n := 0
	ast.Inspect(f, func(node ast.Node) bool {
		rs, ok := node.(*ast.RangeStmt)
		if !ok {
			return true
		}
		tv, ok := info.Types[rs.X]
		if !ok || tv.Type == nil {
			return true
		}
		mt, ok := tv.Type.Underlying().(*types.Map)
		if !ok {
			return true
		}
		bt, ok := mt.Key().Underlying().(*types.Basic)
		if !ok || bt.Info()&types.IsOrdered == 0 {
			return true
		}
		if rs.Tok != token.DEFINE || !pure(rs.X) {
			return true
		}
		keyName := "zzk"
		if id, ok := rs.Key.(*ast.Ident); ok && id.Name != "_" {
			keyName = id.Name
		} else if rs.Key != nil {
			if _, isIdent := rs.Key.(*ast.Ident); !isIdent {
				return true
			}
		}
		valName := "_"
		if rs.Value != nil {
			id, ok := rs.Value.(*ast.Ident)
			if !ok {
				return true
			}
			valName = id.Name
		}
		if rs.Key == nil && rs.Value == nil {
			return true // `for range m`: only the count matters
		}
		// v, zzok := m[k]; if !zzok { continue }
		prologue := []ast.Stmt{
			&ast.AssignStmt{
				Lhs: []ast.Expr{ast.NewIdent(valName), ast.NewIdent("zzok")},
				Tok: token.DEFINE,
				Rhs: []ast.Expr{&ast.IndexExpr{X: rs.X, Index: ast.NewIdent(keyName)}},
			},
			&ast.IfStmt{
				Cond: &ast.UnaryExpr{Op: token.NOT, X: ast.NewIdent("zzok")},
				Body: &ast.BlockStmt{List: []ast.Stmt{&ast.BranchStmt{Tok: token.CONTINUE}}},
			},
		}
		rs.Body.List = append(prologue, rs.Body.List...)
		rs.Key = ast.NewIdent("_")
		rs.Value = ast.NewIdent(keyName)
		rs.X = &ast.CallExpr{
			Fun:  &ast.SelectorExpr{X: ast.NewIdent("zzsimrt"), Sel: ast.NewIdent("Keys")},
			Args: []ast.Expr{rs.X},
		}
		n++
		return true
	})
	return n
}

const rtSource = `// Code generated by /verif/cmd/instrument. Runtime of the simulation passes.
package zzsimrt

import (
	"cmp"
	"fmt"
	"log"
	"os"
	"runtime"
	"slices"
	"sync"
	"sync/atomic"
	"time"
)

// Hook is called at every P-yield site while a simulation is running.
var Hook func(site int32)

// Perm returns a permutation of 0..n-1 for the next map range (nil: sorted order).
var Perm func(n int) []int

// MapRanges counts rewritten map ranges executed (reach probe).
var MapRanges uint64

type Global struct {
	Name string
	Ptr  any
}

var Globals []Global

func RegisterGlobal(name string, p any) { Globals = append(Globals, Global{name, p}) }

func Y(site int32) {
	if h := Hook; h != nil {
		if live.Load() != 0 && inChild() {
			ChildTicks.Add(1)
			return // a goroutine the library started itself: not a party of the simulation
		}
		h(site)
	}
}

// P-go: goroutines started by the library announce themselves; yields and seeded map orders
// do not apply to them (they run under the Go runtime's own scheduling).
var (
	live     atomic.Int32
	children sync.Map // goroutine id -> struct{}
	// ChildTicks counts the yield sites passed by goroutines the library started: the party
	// that waits for them is not stuck while this moves
	ChildTicks atomic.Uint64
)

func goid() uint64 {
	var b [64]byte
	n := runtime.Stack(b[:], false)
	var id uint64
	for _, c := range b[len("goroutine "):n] {
		if c < '0' || c > '9' {
			break
		}
		id = id*10 + uint64(c-'0')
	}
	return id
}

func inChild() bool {
	_, ok := children.Load(goid())
	return ok
}

// InChild: is the calling goroutine one that a rewritten go statement started?
func InChild() bool { return inChild() }

// Go runs fn in the goroutine a rewritten go statement has just started.
func Go(fn func()) {
	id := goid()
	children.Store(id, struct{}{})
	live.Add(1)
	defer func() {
		live.Add(-1)
		children.Delete(id)
		if r := recover(); r != nil {
			// nobody can recover a panic on this goroutine: in production the process dies here.
			// The simulation notes it and goes on, so that the check can report it.
			ChildPanics.Add(1)
		}
	}()
	fn()
}

// ChildPanics counts panics that ended a goroutine the library started itself.
var ChildPanics atomic.Int32

// P-time: the library's clock. While a simulation runs, Clock is the simulated clock.
var Clock func() time.Time

// SleepHook, when set, is what time.Sleep does in the library (advance the simulated clock).
var SleepHook func(d time.Duration)

func Now() time.Time {
	if c := Clock; c != nil && !(live.Load() != 0 && inChild()) {
		return c()
	}
	return time.Now()
}
func Since(t time.Time) time.Duration { return Now().Sub(t) }
func Until(t time.Time) time.Duration { return t.Sub(Now()) }
func Sleep(d time.Duration) {
	if h := SleepHook; h != nil && !(live.Load() != 0 && inChild()) {
		h(d)
		return
	}
	time.Sleep(d)
}

// P-exit: os.Exit and log.Fatal* in the library. ExitHook, when set, records the attempt and
// unwinds (panics); without it the process ends as written.
var ExitHook func(code int, msg string)

func Exit(code int) {
	if h := ExitHook; h != nil {
		h(code, "os.Exit")
	}
	os.Exit(code)
}
func Fatal(a ...any) {
	if h := ExitHook; h != nil {
		h(1, fmt.Sprint(a...))
	}
	log.Fatal(a...)
}
func Fatalf(format string, a ...any) {
	if h := ExitHook; h != nil {
		h(1, fmt.Sprintf(format, a...))
	}
	log.Fatalf(format, a...)
}
func Fatalln(a ...any) {
	if h := ExitHook; h != nil {
		h(1, fmt.Sprintln(a...))
	}
	log.Fatalln(a...)
}

// LiveChildren reports how many library-started goroutines are running now.
func LiveChildren() int { return int(live.Load()) }

// Keys returns the keys of m in an order chosen by the simulator: sorted, then permuted.
// Iterating over them, skipping keys deleted meanwhile, is one of the executions Go's
// own range statement permits.
func Keys[M ~map[K]V, K cmp.Ordered, V any](m M) []K {
	child := live.Load() != 0 && inChild()
	if !child {
		MapRanges++
	}
	ks := make([]K, 0, len(m))
	for k := range m {
		ks = append(ks, k)
	}
	slices.Sort(ks)
	if p := Perm; p != nil && len(ks) > 1 && !child {
		perm := p(len(ks))
		out := make([]K, len(ks))
		for i, j := range perm {
			out[i] = ks[j]
		}
		return out
	}
	return ks
}
`
