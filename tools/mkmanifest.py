#!/usr/bin/env python3
"""Regenerates /verif/MANIFEST.json from the table below (kept in one place so the file stays valid)."""
import json, os, sys
V = os.path.dirname(os.path.dirname(os.path.abspath(__file__)))

NA = {
 "C01": "pure function of (register file, memory image) iterated: no second party, clock, seam behaviour or failure event for a scheduler or fault injector to decide; decided by differential execution against an independent 65C816 model, a different technique (DESIGN §2, §4 C01)",
 "C02": "lock-step comparison of two deterministic functions on identical inputs; the interpreters never interact, so there is nothing to schedule or fault; differential testing decides it (DESIGN §4 C02)",
 "C03": "per-method pure function operand -> bytes over enumerable operand spaces; exhaustive sweep against an opcode table decides it; refusal behaviour is claimed under C07, capacity under C19 (DESIGN §4 C03)",
 "C04": "composition of two total functions on 2^24 points x 4 mappers, no history, seam or fault; exhaustive enumeration decides it (DESIGN §4 C04)",
 "C05": "finite total function compared with a region table; exhaustive enumeration / SMT decides it (DESIGN §4 C05)",
 "C08": "whether an effective address leaves 24 bits is a pure function of (opcode, operand, DBR, index); the panic is produced by the input, not injected or scheduled (DESIGN §4 C08)",
 "C09": "ReadHeader/WriteHeader take concrete *bytes.Reader/*bytes.Buffer (no seam to fault), hold no state; byte-level codec round-trip is property-based/bit-flip territory (DESIGN §4 C09)",
 "C11": "routing is fixed at CreateEmulator; compares two static total functions over 2^24 addresses: exhaustive enumeration. The Attach mechanism it relies on is claimed under C13 (DESIGN §4 C11)",
 "C17": "stateless arithmetic on <= 2^32 input combinations; exhaustive enumeration decides it (DESIGN §4 C17)",
}

TECH = "deterministic simulation: seeded scenarios (operation, fault and schedule sequences) executed against the real code and a reference model in lock-step, shrinking, exact replay"
CHECKS = {
 "C19": ("fault_enumeration", "4 C19",
   "Capacity exhaustion is the fault; for every generated emitter history the thorough tier places it at every capacity 0..S (enumerated), the quick tier at the edge capacities plus seeded ones; after each refusal bytes, length, pc, labels must equal the pre-call snapshot, and a nil-target twin must track pc/labels/flags of a real emitter call by call. Histories are sampled, capacities enumerated.",
   "Trusts the naming-rule size table for instruction sizes and the reflection-based method catalogue; a clean run is evidence over the sampled histories, not proof."),
}
CHECKS.update({
 "C06": ("exploration", "4 C06",
   "Seeded emitter histories with constructed branch distances, missing/late labels, duplicate labels, tight capacities and Finalize at arbitrary points are run against asm.Emitter and a reference model; the order in which Finalize visits labels (the library's only runtime nondeterminism) is a scheduled, replayable choice via the map-range pass. Checks outcome iff-condition, every operand byte after success, nothing-but-operands after failure, error names a failing reference, refusals change nothing.",
   "Sampled histories, not proof. Encodings are not checked (C03 unclaimed). Trusts the source-to-source map-range rewrite to produce only executions Go's range permits."),
 "C15": ("exploration", "4 C15",
   "Seeded histories with listing generation on; text and hex listings requested at arbitrary instants through simulated sinks (healthy, failing at write k, short-writing, dead); healthy listings are parsed and compared item by item with the model and byte for byte with Bytes(); any sink must leave the emitter and the next healthy listing unchanged and must not make the library panic.",
   "Listing syntax is recognised by line shape only; mnemonic/operand spelling is not checked. Sampled histories."),
 "C16": ("exploration", "4 C16",
   "Three emitters (original, clone, directly-fed twin): seeded history, seeded split point, observations of the original (state, listings, target buffer) interleaved with operations on the clone, Append under exact/one-short/far-short/ample/nil capacities; refusal must be atomic, success must make original and twin agree on bytes, length, pc, flags, labels, both listings, Finalize outcome and finalized bytes.",
   "Finalize/listings are not requested from the clone itself; byte images are not compared between a failed and the next successful Finalize (C06 allows any subset of operands to be patched). Sampled histories."),
})
CHECKS.update({
 "C07": ("exploration", "4 C07",
   "Seeded straight-line emitter histories (every immediate method under right and wrong tracked widths, REP/SEP/Assume* with arbitrary masks, four initial width assumptions) are checked against an independent width tracker (refused exactly when sizes disagree, refusal changes nothing) and then executed on both interpreters over simulated write-protected memory, with each mid-program Assume* injected as an external flag change at that instruction boundary; the PC before every Step must be the assembler's instruction start, and final M/X must equal the tracked widths.",
   "Thinnest of the claimed properties: apart from refusal events and the placement of external width changes there is no fault or schedule in it (DESIGN §4 C07). Operands are kept away from the unclaimed C08 defect region. Sampled programs."),
 "C10": ("exploration", "4 C10",
   "The simulator plays the client of the io.Reader/io.Writer streams: seeded histories of opens/reads/writes over overlapping windows with chunk sizes at, one before and beyond the window end, through raw calls, io.ReadFull, io.ReadAll, io.CopyN and bufio; every underlying Read/Write call is checked against a private image copy with per-stream windows (EOF only at the window end, no silent partial write, writes that fit must succeed, image equal to the model after every call, low-half streams always fail and change nothing).",
   "Banks $00-$7F inside the image only. Known finding D2 (last byte of each bank unreachable, pinned by a baseline test) is relaxed narrowly while its witness still fails. Sampled histories."),
 "C13": ("exploration", "4 C13",
   "Seeded histories of Attach (overlapping, nested, re-attached, top-of-space, mis-aligned), EaRead/EaWrite at range edges and in holes, and EaDump over every alignment across devices and holes, on a fresh bus.Bus with simulated devices that record the address they receive; checked op by op against an owner table: exactly one call on the most recently attached device with the full address, holes panic without touching a device, rejected Attach changes nothing, EaDump count/content/untouched-hole positions/guard bytes and every device call made on its behalf.",
   "24-bit addresses (empty and inverted ranges included; devices whose Read panics and memories that work as nil pointers are not modelled). Sampled histories."),
})
CHECKS.update({
 "C12": ("exploration", "4 C12",
   "Clock = emulated cycle counter, time-out = RunUntil's budget. Seeded programs on emulator.System are driven by RunUntil with budget and target placed relative to a measured reference pass (0, 1, first-instruction cost +-1, exact path cost +-1; target = start / n-th boundary / operand middle / wrong bank / never), observer callbacks on chosen addresses, and a simulated Logger with fault plans; the result is compared with a bare-Step twin applying the property's own definition, and a yield-count watchdog turns a non-returning RunUntil into a reported violation. Bare cpu65c816/cpualt runs with seeded STP/Reset lifecycles are monitored step by step (cycles >= 1, AllCycles delta, stop flag = STP since last Reset, OnPC before the fetch, OnWDM operands); a per-opcode sweep steps every M x X x E x DL x page-cross x branch combination once on both interpreters.",
   "Index/slice-bounds panics inside Step (unclaimed C08 defect) end a run as discarded when the twin panics identically. Callbacks observe, restart the exported cycle total, re-enter RunUntil for the address the CPU is at, or fork the CPU with InitFrom; callbacks that move the PC are outside the property. Sampled programs; the sweep covers each opcode x 48 flag combinations per visit."),
 "C14": ("exploration", "4 C14",
   "Twin worlds of one scenario: traced (System.RunUntil with a simulated Logger incl. Reserve/Commit presence and fault plans, or cpualt DisassembleCurrentPC before each Step) and untraced must end with identical registers (both width copies), flags, cycle totals and memory; a third, externally recording pass supplies what each instruction looked like just before it executed, and every trace line is parsed and compared with it using an independently written 65C816 decode table (address, exact bytes for the current widths, mnemonic, operand rendering, branch destination, width-appropriate register values, flag letters).",
   "Dialect tolerances listed in DESIGN §4 C14 / evidence assumptions. Runs where Step panics identically in both worlds are discarded (unclaimed C08). Sampled programs; all 29 addressing modes x 4 width combinations are reached in the quick tier."),
})
CHECKS.update({
 "C18": ("exploration", "4 C18",
   "The quantifier is over schedules. 2-6 parties, each a real goroutine owning its own instances and running the script of one of the other worlds (System+RunUntil+Logger, bare CPUs of both kinds, emitters, ROM streams, buses, mapper/colour/header loops; identical twins included), are released one at a time by a baton scheduler whose decision points are every seam call and every function entry and loop iteration of library code (instrumented yield sites). Each script first runs alone; then k seeded schedules (switch probability per yield from 0 to 0.5, switches forced after fault events) must make every party reproduce its solo observation digest, and no registered package-level variable may change during the interleaved phase (checked at context switches and at the end) nor during the solo pass of a second party of an already-run role. Violations carry the explicit minimised switch list.",
   "Serialising scheduler: shows absence of interference at yield points and of writes to package-level state, not absence of same-value races/word tearing (DESIGN §7). Sampled worlds and schedules."),
})
PENDING = {p: "check under construction in this round (planned as claimed in DESIGN.md §4 "+p+"); not claimed until its world exists" for p in ["C06","C07","C10","C12","C13","C14","C15","C16","C18"]}

def main():
    impl = [p for p in CHECKS if os.path.exists(os.path.join(V, "worlds", p.lower()+".go"))]
    checks = []
    for p in sorted(impl):
        level, ref, text, note = CHECKS[p]
        checks.append({
          "property_id": p,
          "quick_cmd": f"./run.sh {p} quick",
          "thorough_cmd": f"./run.sh {p} thorough",
          "evidence_file": f"evidence/{p}.json",
          "replay_cmd_template": f"./run.sh {p} replay {{path}}",
          "engine": "snessim",
          "level_claimed": {"category": level, "text": text, "design_ref": "DESIGN.md §"+ref},
          "level_note": note,
          "technique": TECH,
        })
    na = [{"property_id": k, "reason": v} for k, v in sorted(NA.items())]
    for p, why in sorted(PENDING.items()):
        if p not in impl:
            na.append({"property_id": p, "reason": why})
    na.sort(key=lambda x: x["property_id"])
    m = {
      "version": 1,
      "setup_cmd": "./setup.sh",
      "hooks": {
        "guard": "verif",
        "enable": "none needed: no hook is committed to /repo; every check copies /repo's working tree to a scratch directory and applies the simulation passes (cmd/instrument: yield points, seeded map-range order, globals registry, and for code a change may add: library-started goroutines, clock reads, process exits) to the copy before building",
        "baseline_off_cmd": "cd /repo && GOFLAGS=-mod=mod go test -vet=off -count=1 ./...",
        "source_commits": [],
        "add_only": True,
      },
      "engines": [{"name": "snessim", "path": "cmd/simcheck", "serves_properties": sorted(impl),
                   "kind_free_text": "deterministic simulator with fault injection: seeded scenario generator, baton-passing scheduler over instrumented yield points, simulated memories/sinks/streams, reference models, delta-debugging shrinker, replay files"}],
      "checks": checks,
      "not_applicable": na,
      "notes": "See DESIGN.md. Checks exit 0/1/2 (2 = harness or build trouble, never a verdict). known_findings.json lists genuine defects (known/fixed) with witness replays under findings/.",
    }
    json.dump(m, open(os.path.join(V, "MANIFEST.json"), "w"), indent=1)
    print("MANIFEST.json:", len(checks), "checks,", len(na), "not applicable")
main()
