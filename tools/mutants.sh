#!/bin/bash
# tools/mutants.sh <Cxx> [tier]  — sensitivity self-test (DESIGN §6.2): every planted defect of
# mutants/<Cxx>.txt is applied to a scratch copy of /repo, must compile and pass the
# repository's tests, and is then given to the property's check. Prints one line per mutant.
set -u
export GOFLAGS=-mod=mod GOPROXY=off GOSUMDB=off GOTOOLCHAIN=local
prop="$1"; tier="${2:-quick}"; only="${3:-}"
V="$(cd "$(dirname "$0")/.." && pwd)"
while IFS='|' read -r name file subst; do
  [ -z "$name" ] && continue
  case "$name" in \#*) continue;; esac
  [ -n "$only" ] && [ "$only" != "$name" ] && continue
  M="$(mktemp -d /tmp/mutant.XXXXXX)"
  rsync -a --exclude .git /repo/ "$M/"
  cp "$M/$file" "$M/$file.orig"
  perl -0pi -e "$subst" "$M/$file"
  if cmp -s "$M/$file" "$M/$file.orig"; then echo "$name: DID-NOT-APPLY"; rm -rf "$M"; continue; fi
  rm "$M/$file.orig"
  if ! (cd "$M" && go build ./... 2>/tmp/mut-build.$$); then echo "$name: DOES-NOT-COMPILE $(head -3 /tmp/mut-build.$$ | tr '\n' ' ')"; rm -rf "$M" /tmp/mut-build.$$; continue; fi
  rm -f /tmp/mut-build.$$
  tests="pass"
  if [ "${SKIP_TESTS:-0}" != 1 ]; then
    python3 "$V/tools/baseline.py" "$M" >/dev/null 2>&1 || tests="FAILS-BASELINE-TESTS"
  fi
  out="$(VERIF_REPO="$M" VERIF_BUDGET_S="${VERIF_BUDGET_S:-60}" "$V/run.sh" "$prop" "$tier" 2>&1)"; code=$?
  v="$(echo "$out" | grep -m1 '^minimised' | cut -c1-220)"
  [ -z "$v" ] && v="$(echo "$out" | grep -m1 'violation\|VIOLATION\|fail' | cut -c1-220)"
  echo "$name: exit=$code tests=$tests $v"
  rm -rf "$M"
done < "$V/mutants/$prop.txt"
