#!/usr/bin/env python3
"""tools/benign_summary.py <log>...: condenses the output of tools/benign.sh runs (one stream per
log; each diff's result line is preceded by the name of its set) into evidence/benign.json."""
import json, re, sys, os, time
rows = []
for path in sys.argv[1:]:
    for line in open(path, errors="replace"):
        m = re.match(r"^(B\d\w*) (P\d)\.diff: baseline=(\S+) checks=\[([^\]]*)\] alarms:(.*)$", line.strip())
        if m:
            rows.append({"change": f"benign/{m.group(1)}/{m.group(2)}.diff", "baseline": m.group(3),
                         "checks_run": m.group(4).split(), "alarms": m.group(5).strip()})
rows.sort(key=lambda r: r["change"])
out = {"generated": time.strftime("%Y-%m-%dT%H:%M:%SZ", time.gmtime()),
       "what": "tools/benign.sh on every change of benign/ (quick tier of every check whose binary contains a touched package)",
       "changes": len(rows), "with_alarm": [r for r in rows if r["alarms"] != "none"], "results": rows}
json.dump(out, open(os.path.join(os.path.dirname(__file__), "..", "evidence", "benign.json"), "w"), indent=1)
print(f"{len(rows)} changes, {len(out['with_alarm'])} with an alarm")
