#!/usr/bin/env python3
"""tools/benign_summary.py <log>...: condenses the output of tools/benign.sh runs (one stream per
log; each diff's result line is preceded by the name of its set) into evidence/benign.json."""
import json, re, sys, os, time
rows = []
for path in sys.argv[1:]:
    cur = None
    for line in open(path, errors="replace"):
        line = line.strip()
        for tok in line.split():
            if re.fullmatch(r"B\d\w*", tok):
                cur = tok  # each diff's output starts with the name of its set
            else:
                break
        m = re.search(r"(P\d)\.diff: baseline=(\S+)(?: checks=\[([^\]]*)\])? alarms:(.*)$", line)
        if m and cur:
            checks = m.group(3).split() if m.group(3) else "C06 C07 C10 C12 C13 C14 C15 C16 C18 C19".split()
            rows.append({"change": f"benign/{cur}/{m.group(1)}.diff", "baseline": m.group(2),
                         "checks_run": checks, "alarms": m.group(4).strip()})
rows.sort(key=lambda r: r["change"])
out = {"generated": time.strftime("%Y-%m-%dT%H:%M:%SZ", time.gmtime()),
       "what": "tools/benign.sh on every change of benign/ (quick tier of every check whose binary contains a touched package)",
       "changes": len(rows), "with_alarm": [r for r in rows if "exit1" in r["alarms"]],
       "inconclusive": [r for r in rows if "exit2" in r["alarms"]], "results": rows}
json.dump(out, open(os.path.join(os.path.dirname(__file__), "..", "evidence", "benign.json"), "w"), indent=1)
print(f"{len(rows)} changes, {len(out['with_alarm'])} with an alarm, {len(out['inconclusive'])} inconclusive (exit 2)")
