#!/bin/bash
# tools/benign.sh <diff-file> [props...]: false-alarm test. Applies a change that is claimed to keep
# every property true to a scratch copy of /repo and runs the quick tier of the given (default: all)
# properties on it. Any exit 1 is a false alarm to analyse (or the claim is wrong).
set -u
export GOFLAGS=-mod=mod GOPROXY=off GOSUMDB=off GOTOOLCHAIN=local
V="$(cd "$(dirname "$0")/.." && pwd)"; D="$(realpath "$1")"; shift
# default: the checks whose binaries contain a package the change touches (a check that links
# none of the touched packages is the same program as on the unchanged tree)
affected() {
  local all="C06 C07 C10 C12 C13 C14 C15 C16 C18 C19" out=""
  for f in $(grep '^+++ b/' "$D" | sed 's|^+++ b/||'); do
    case "$f" in
      asm/*) out="$out C06 C07 C15 C16 C18 C19" ;;
      emulator/bus/*|emulator/memory/*) out="$out C07 C12 C13 C14 C18" ;;
      emulator/cpu65c816/*|emulator/cpualt/*) out="$out C07 C12 C14 C18" ;;
      emulator/*.go) out="$out C12 C14 C18" ;;
      rom.go|header.go) out="$out C10 C18" ;;
      *) out="$all" ; break ;;
    esac
  done
  for p in $all; do case " $out " in *" $p "*) printf '%s ' "$p";; esac; done
}
PROPS="${*:-$(affected)}"
M="$(mktemp -d /tmp/benign.XXXXXX)"; trap 'rm -rf "$M"' EXIT
git -C /repo archive HEAD | tar -x -C "$M"
(cd "$M" && git init -q . && git apply --whitespace=nowarn "$D") || { echo "$(basename "$D"): PATCH-DOES-NOT-APPLY"; exit 3; }
rm -rf "$M/.git"
(cd "$M" && go build ./...) || { echo "$(basename "$D"): DOES-NOT-COMPILE"; exit 3; }
base=pass; if [ "${BENIGN_SKIP_BASELINE:-0}" = 1 ]; then base=notrun; else python3 "$V/tools/baseline.py" "$M" >/dev/null 2>&1 || base=FAILS-BASELINE; fi
res=""
for p in $PROPS; do
  out="$(VERIF_REPO="$M" "$V/run.sh" "$p" quick 2>&1)"; code=$?
  if [ $code -ne 0 ]; then res="$res $p=exit$code"; echo "--- $p on $(basename "$D"):"; echo "$out" | grep -m2 '^minimised\|^violation\|fail\|error' | cut -c1-500; fi
done
echo "$(basename "$D"): baseline=$base checks=[$PROPS] alarms:${res:- none}"
