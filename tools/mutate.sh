#!/bin/bash
# tools/mutate.sh <Cxx> <tier> <file-relative-to-repo> <perl-substitution> [more file/subst pairs]
# Applies a textual mutation to a scratch copy of /repo (never to /repo), checks that it
# still compiles and passes the repository's tests, then runs the property's check on it.
set -u
export GOFLAGS=-mod=mod GOPROXY=off GOSUMDB=off GOTOOLCHAIN=local
prop="$1"; tier="$2"; shift 2
M="$(mktemp -d /tmp/mutant.XXXXXX)"; trap 'rm -rf "$M"' EXIT
rsync -a --exclude .git /repo/ "$M/"
while [ $# -ge 2 ]; do
  f="$1"; s="$2"; shift 2
  cp "$M/$f" "$M/$f.orig"
  perl -0pi -e "$s" "$M/$f"
  if cmp -s "$M/$f" "$M/$f.orig"; then echo "MUTATION DID NOT APPLY: $f $s"; exit 3; fi
  diff -u "$M/$f.orig" "$M/$f" | head -20
  rm "$M/$f.orig"
done
(cd "$M" && go build ./... ) || { echo "MUTANT DOES NOT COMPILE"; exit 3; }
if [ "${SKIP_TESTS:-0}" != 1 ]; then
  python3 "$(dirname "$0")/baseline.py" "$M"
fi
VERIF_REPO="$M" VERIF_BUDGET_S="${VERIF_BUDGET_S:-60}" "$(dirname "$0")/../run.sh" "$prop" "$tier" | tail -${TAIL:-12}
echo "exit=${PIPESTATUS[0]}"
