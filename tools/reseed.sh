#!/bin/bash
# tools/reseed.sh [tier]: re-runs every confirmed seeded change (seeded/*/patch.diff) against the
# current checks and /repo HEAD, updating meta.json "check" (detected yes/no, first violation).
set -u
export GOFLAGS=-mod=mod GOPROXY=off GOSUMDB=off GOTOOLCHAIN=local
V="$(cd "$(dirname "$0")/.." && pwd)"; TIER="${1:-quick}"
# SHARD=i/n: only every n-th change, starting with the i-th (for running several in parallel)
SI="${SHARD%%/*}"; SN="${SHARD##*/}"; [ -n "${SHARD:-}" ] || { SI=0; SN=1; }
k=-1
for D in "$V"/seeded/C*; do
  k=$((k+1)); [ $((k % SN)) -eq "$SI" ] || continue
  id="$(basename "$D")"; P="${id%%-*}"
  cp_="$(python3 -c "import json;print(json.load(open('$D/meta.json')).get('check_property',''))" 2>/dev/null)"; [ -n "$cp_" ] && P="$cp_"
  M="$(mktemp -d /tmp/reseed.XXXXXX)"
  git -C /repo archive HEAD | tar -x -C "$M"
  if ! (cd "$M" && git init -q . && git apply --whitespace=nowarn "$D/patch.diff" 2>/dev/null); then echo "$id: PATCH-DOES-NOT-APPLY"; rm -rf "$M"; continue; fi
  rm -rf "$M/.git"
  if ! (cd "$M" && go build ./... 2>/dev/null); then echo "$id: DOES-NOT-COMPILE"; rm -rf "$M"; continue; fi
  out="$(VERIF_REPO="$M" VERIF_BUDGET_S=120 "$V/run.sh" "$P" "$TIER" 2>&1)"; code=$?
  viol="$(echo "$out" | grep -m1 '^minimised' | cut -c1-300)"; [ -n "$viol" ] || viol="$(echo "$out" | grep -m1 'violation\|VIOLATION\|returned' | cut -c1-300)"
  python3 - "$D/meta.json" "$code" "$TIER" "$viol" <<'PY'
import json,sys
p,code,tier,viol=sys.argv[1:]
m=json.load(open(p)); m["check"]={"tier":tier,"exit":int(code),"detected":int(code)==1,"first_violation":viol}
json.dump(m,open(p,"w"),indent=1)
PY
  echo "$id: exit=$code $(echo "$viol" | cut -c1-160)"
  rm -rf "$M"
done
