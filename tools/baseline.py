#!/usr/bin/env python3
"""tools/baseline.py <module-dir>: runs the repository's tests there and reports whether every
test of BASELINE.json's stable_pass list passes (exit 0) or not (exit 1, lists failures)."""
import json, subprocess, sys, os
d = sys.argv[1]
base = json.load(open('/root/.vp/BASELINE.json'))
want = set(base['stable_pass'])
env = dict(os.environ, GOFLAGS='-mod=mod', GOPROXY='off', GOSUMDB='off', GOTOOLCHAIN='local')
p = subprocess.run(['go','test','-json','-vet=off','-count=1','-timeout','25m','./...'], cwd=d, env=env, capture_output=True, text=True)
passed = set()
for line in p.stdout.splitlines():
    try: ev = json.loads(line)
    except Exception: continue
    if ev.get('Action') == 'pass' and ev.get('Test'):
        passed.add(ev['Package'] + '::' + ev['Test'])
missing = sorted(want - passed)
print(f"baseline: {len(want & passed)}/{len(want)} stable tests pass")
for m in missing[:10]: print("  NOT PASSING:", m)
sys.exit(1 if missing else 0)
