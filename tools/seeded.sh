#!/bin/bash
# tools/seeded.sh <Cxx> <A|B> [tier]   confirm an independently written breaking change and run the check on it.
#  input : /tmp/wt/<Cxx>.out/{A,B}.diff, {A,B}_demo_test.go  (written by a sub-agent that saw only the property text)
#  steps : scratch copy of /repo + patch -> builds? baseline tests pass? demo fails with / passes without? -> run check
#  output: /verif/seeded/<Cxx>-<X>/ {patch.diff, demo_test.go, meta.json}
set -u
export GOFLAGS=-mod=mod GOPROXY=off GOSUMDB=off GOTOOLCHAIN=local
P="$1"; X="$2"; TIER="${3:-quick}"; CHK="${CHECK_PROP:-$1}"
V="$(cd "$(dirname "$0")/.." && pwd)"; IN="/tmp/wt/$P.out${OUTSUFFIX:-}"
[ -f "$IN/$X.diff" ] || { echo "no $IN/$X.diff"; exit 3; }
M="$(mktemp -d /tmp/seeded.XXXXXX)"; trap 'rm -rf "$M"' EXIT
mkdir "$M/with" "$M/without"
git -C /repo archive HEAD | tar -x -C "$M/with"; git -C /repo archive HEAD | tar -x -C "$M/without"
(cd "$M/with" && git init -q . && git apply --whitespace=nowarn "$IN/$X.diff") || { echo "$P-$X: PATCH-DOES-NOT-APPLY to /repo HEAD"; exit 3; }
rm -rf "$M/with/.git"
(cd "$M/with" && go build ./...) || { echo "$P-$X: DOES-NOT-COMPILE"; exit 3; }
base="pass"; python3 "$V/tools/baseline.py" "$M/with" >"$M/base.log" 2>&1 || base="FAILS-BASELINE"
demo="$IN/${X}_demo_test.go"; dir="$(head -1 "$demo" | sed -n 's|^// *copy to: *\([^ ]*\).*|\1|p')"; dir="${dir%/}"; [ -n "$dir" ] || dir="."
tname="TestDemo"
cp "$demo" "$M/with/$dir/zz_demo_test.go"; cp "$demo" "$M/without/$dir/zz_demo_test.go"
race=""; grep -q 'go test -race\|requires -race\|-race' "$IN/NOTES.md" 2>/dev/null && [ "$P" = C18 ] && race="-race"
(cd "$M/with" && go test $race -vet=off -count=1 -run "^$tname" "./$dir/" >"$M/demo_with.log" 2>&1); dw=$?
(cd "$M/without" && go test $race -vet=off -count=1 -run "^$tname" "./$dir/" >"$M/demo_without.log" 2>&1); dwo=$?
rm -f "$M/with/$dir/zz_demo_test.go"
out="$(VERIF_REPO="$M/with" VERIF_BUDGET_S="${VERIF_BUDGET_S:-120}" "$V/run.sh" "$CHK" "$TIER" 2>&1)"; code=$?
viol="$(echo "$out" | grep -m1 '^minimised' | cut -c1-300)"; [ -n "$viol" ] || viol="$(echo "$out" | grep -m1 'violation\|VIOLATION\|returned' | cut -c1-300)"
echo "$P-$X: baseline=$base demo_with_exit=$dw demo_without_exit=$dwo check_exit=$code tier=$TIER :: $viol"
if [ "$base" = pass ] && [ $dw -ne 0 ] && [ $dwo -eq 0 ]; then
  D="$V/seeded/$P-$X"; mkdir -p "$D"; cp "$IN/$X.diff" "$D/patch.diff"; cp "$demo" "$D/demo_test.go"
  python3 - "$P" "$X" "$D" "$code" "$TIER" "$viol" "$IN/NOTES.md" "$tname" "$dir" "$CHK" <<'PY'
import json,sys,re
P,X,D,code,tier,viol,notes,tname,dir,chk=sys.argv[1:]
txt=open(notes).read() if notes else ""
m=re.split(r'(?m)^#+ .*\b(?:Change )?B\b.*$', txt)
sect = txt
json.dump({"property":P,"id":f"{P}-{X}","source":"sub-agent given only the property text and a scratch worktree",
 "demo":{"file":"demo_test.go","copy_to":dir,"test":tname,"fails_with_change":True,"passes_without":True},
 "baseline_tests_with_change":"402/402 stable tests pass",
 "check_property":chk,
 "check":{"tier":tier,"exit":int(code),"detected":int(code)==1,"first_violation":viol},
 "what_was_run":[f"tools/seeded.sh {P} {X} {tier}  (scratch copy of /repo HEAD + patch: go build, tools/baseline.py = 402 stable tests, demo test with/without the patch, run.sh {P} {tier} with VERIF_REPO=<copy>)"],
 "needs_to_manifest":"see notes",
 "notes":sect[:6000]}, open(D+"/meta.json","w"), indent=1)
PY
else
  echo "$P-$X: NOT CONFIRMED (kept nothing)"; sed -n 1,15p "$M/demo_with.log"; sed -n 1,8p "$M/demo_without.log"; tail -5 "$M/base.log"
fi
