#!/bin/bash
# tools/sensitivity.sh [tier]: runs every planted defect (mutants/*.txt) and every confirmed seeded
# change (seeded/*) through its property's check and writes evidence/sensitivity.json.
set -u
V="$(cd "$(dirname "$0")/.." && pwd)"; TIER="${1:-quick}"; OUT="$V/evidence/sensitivity.txt"; : > "$OUT"
# PAR properties at a time (default 4); each property's mutants run one after the other
PAR="${PAR:-4}"; TMPD="$(mktemp -d /tmp/sens.XXXXXX)"
ls "$V"/mutants/C*.txt | xargs -P "$PAR" -I{} bash -c 'p="$(basename "{}" .txt)"; "'"$V"'/tools/mutants.sh" "$p" "'"$TIER"'" 2>&1 | sed "s/^/$p mutant /" > "'"$TMPD"'/$p.txt"'
cat "$TMPD"/C*.txt | tee -a "$OUT"; rm -rf "$TMPD"
python3 - "$OUT" "$V" "$TIER" <<'PY'
import sys,json,re,glob,os
out,V,tier=sys.argv[1:]
rows=[]
for line in open(out):
    m=re.match(r'(C\d\d) mutant ([A-Za-z0-9_]+): (.*)',line)
    if not m: continue
    p,name,rest=m.groups()
    ex=re.search(r'exit=(\d)',rest); t=re.search(r'tests=(\S+)',rest)
    o=re.search(r'\[([a-z_A-Z0-9]+)\]',rest); mn=re.search(r'-> (\d+) ops',rest)
    rows.append({"property":p,"mutant":name,"compiles_and_applies":ex is not None,"baseline_tests":t.group(1) if t else None,
                 "detected":bool(ex and ex.group(1)=='1'),"oracle":o.group(1) if o else None,"minimised_ops":int(mn.group(1)) if mn else None})
seeded=[]
for mf in sorted(glob.glob(V+'/seeded/*/meta.json')):
    m=json.load(open(mf)); seeded.append({"id":m["id"],"detected":m["check"]["detected"],"tier":m["check"]["tier"],"first_violation":m["check"]["first_violation"][:200],"history":m.get("history")})
json.dump({"tier":tier,"planted":rows,"planted_total":len(rows),"planted_detected":sum(r["detected"] for r in rows),
           "seeded":seeded,"seeded_total":len(seeded),"seeded_detected":sum(s["detected"] for s in seeded)},
          open(V+'/evidence/sensitivity.json','w'),indent=1)
print("planted: %d/%d detected; seeded: %d/%d detected"%(sum(r["detected"] for r in rows),len(rows),sum(s["detected"] for s in seeded),len(seeded)))
PY
